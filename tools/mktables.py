#!/venv/bin/python
"""Regenerate the two generated tables of DESIGN.md from their data files:

  <!-- REVERTS:BEGIN --> ... <!-- REVERTS:END -->   from selftest/reverts.json
  <!-- SEEDED:BEGIN -->  ... <!-- SEEDED:END -->    from seeded/matrix.json
                                                   (+ seeded/<id>/notes.md)
"""
import json
import os
import re

VERIF = os.path.dirname(os.path.dirname(os.path.abspath(__file__)))


def between(s, tag, body):
    a, b = f"<!-- {tag}:BEGIN -->", f"<!-- {tag}:END -->"
    i, j = s.index(a) + len(a), s.index(b)
    return s[:i] + "\n" + body.rstrip() + "\n" + s[j:]


def cell(x):
    return x.replace('|', '\\|').replace('\n', ' ')


def reverts():
    r = json.load(open(os.path.join(VERIF, 'selftest', 'reverts.json')))
    rows = ["| reverted fix | check | outcome, first witness |", "|---|---|---|"]
    for k, v in sorted(r.items()):
        prop, sha = k.split('-')
        if not v.get('applies'):
            rows.append(f"| {sha} | {prop} | *does not apply on the current "
                        f"tree* (later fixes rewrote the same lines; caught on "
                        f"the tree it was generated from) |")
            continue
        w = v.get('first', '').replace('kind=', '').split(' detail=')
        rows.append(f"| {sha} | {prop} | exit {v.get('exit')}: `{cell(w[0])}` "
                    f"-- {cell(w[1][:110]) if len(w) > 1 else ''} |")
    n1 = sum(1 for v in r.values() if v.get('exit') == 1)
    head = (f"Last run of `tools/reverts.py`: {n1} of {len(r)} reverse patches "
            f"make their check exit 1; "
            f"{sum(1 for v in r.values() if not v.get('applies'))} no longer "
            f"apply.\n\n")
    return head + "\n".join(rows)


def seeded():
    path = os.path.join(VERIF, 'seeded', 'matrix.json')
    m = json.load(open(path)) if os.path.exists(path) else {}
    rows = ["| change | what it does (first line of its notes) | target check | "
            "also run |", "|---|---|---|---|"]
    ids = sorted(d for d in os.listdir(os.path.join(VERIF, 'seeded'))
                 if re.fullmatch(r'C\d\d-m\d+', d))
    ncaught = 0
    for sid in sorted(ids, key=lambda x: (x[:3], int(x.split('-m')[1]))):
        notes = open(os.path.join(VERIF, 'seeded', sid, 'notes.md')).read()
        title = notes.strip().split('\n')[0].lstrip('# ').strip()
        title = re.sub(r'^(C\d\d\s*/\s*)?m\d+\s*(--|—|-|:)\s*', '', title)
        row = m.get(sid, {})
        prop = sid[:3]
        tgt = [f"{k}: exit {v}" for k, v in row.items() if k.startswith(prop + '@')]
        oth = [f"{k}: exit {v}" for k, v in row.items()
               if not k.startswith('_') and not k.startswith(prop + '@')]
        if any(v == 1 for k, v in row.items() if not k.startswith('_')):
            ncaught += 1
        rows.append(f"| {sid} | {cell(title[:150])} | "
                    f"{', '.join(tgt) or row.get('_error', 'not run')[:60]} | "
                    f"{', '.join(oth)} |")
    head = (f"`seeded/matrix.json` (last full run of `tools/seedmatrix.py` on "
            f"the current tree, quick tier, seed 0): {ncaught} of {len(ids)} "
            f"changes make at least one check exit 1.\n\n")
    return head + "\n".join(rows)


def main():
    p = os.path.join(VERIF, 'DESIGN.md')
    s = open(p).read()
    s = between(s, 'REVERTS', reverts())
    s = between(s, 'SEEDED', seeded())
    open(p, 'w').write(s)


if __name__ == '__main__':
    main()
