#!/venv/bin/python
"""Import independently written breaking changes into /verif/seeded.

    tools/importseed.py <round-dir> <m-names...> --origin "<text>" --base <sha>

<round-dir>/Cnn-out/<m>/{patch.diff,demo.py,notes.md} and the result file
<round-dir>/Cnn-<m>.res written by tools/seedtest.py are copied / summarised
into seeded/Cnn-<m>/{patch.diff,demo.py,notes.md,meta.json}. Only changes
that were confirmed (demo passes on the clean tree, tests pass and the demo
fails with the patch) are imported.
"""
import json
import os
import shutil
import sys

VERIF = os.path.dirname(os.path.dirname(os.path.abspath(__file__)))


def main():
    args = sys.argv[1:]
    origin = args[args.index('--origin') + 1]
    base = args[args.index('--base') + 1]
    rest = [a for i, a in enumerate(args)
            if a not in ('--origin', '--base')
            and (i == 0 or args[i - 1] not in ('--origin', '--base'))]
    rdir, names = rest[0], rest[1:]
    n = 0
    for i in range(1, 21):
        prop = f"C{i:02d}"
        for m in names:
            src = os.path.join(rdir, f"{prop}-out", m)
            res = os.path.join(rdir, f"{prop}-{m}.res")
            if not (os.path.exists(os.path.join(src, 'patch.diff'))
                    and os.path.exists(res)):
                print('missing', prop, m)
                continue
            s = open(res).read()
            d = json.loads(s[s.index('{'):])
            ok = (d.get('demo_clean_exit') == 0 and d.get('tests_pass')
                  and d.get('demo_patched_exit') not in (0, None))
            if not ok:
                print('NOT CONFIRMED', prop, m)
                continue
            dst = os.path.join(VERIF, 'seeded', f"{prop}-{m}")
            os.makedirs(dst, exist_ok=True)
            for f in ('patch.diff', 'demo.py', 'notes.md'):
                if os.path.exists(os.path.join(src, f)):
                    shutil.copy(os.path.join(src, f), os.path.join(dst, f))
            notes = open(os.path.join(src, 'notes.md')).read() \
                if os.path.exists(os.path.join(src, 'notes.md')) else ''
            checks = {k: {'exit': v['exit'], 'first': (v.get('first') or [])[:1]}
                      for k, v in d['checks'].items()}
            meta = {
                'id': f"{prop}-{m}", 'property': prop,
                'origin': f"{origin} working in its own scratch worktree of "
                          f"/repo ({base})",
                'ported': None, 'needs_to_manifest': notes,
                'verified': {
                    'how': 'tools/seedtest.py in a scratch git worktree under '
                           '/tmp/pvscratch (removed afterwards)',
                    'demo_exit_on_clean_tree': d.get('demo_clean_exit'),
                    'repo_tests_with_patch': d.get('tests'),
                    'demo_exit_with_patch': d.get('demo_patched_exit')},
                'target_check_after_strengthening': checks}
            with open(os.path.join(dst, 'meta.json'), 'w') as fh:
                json.dump(meta, fh, indent=1)
            n += 1
    print('imported', n)


if __name__ == '__main__':
    main()
