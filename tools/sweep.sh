#!/bin/bash
# tools/sweep.sh TIER "SEEDS" [CHECKS...]   -- runs checks one after another
# (no evidence written), prints one line per run: check seed exit wall.
# Meant for `vp run -- tools/sweep.sh thorough "0"`: installs .deps first.
cd "$(dirname "$0")/.."
./setup.sh >/dev/null 2>&1
TIER=$1; SEEDS=$2; shift 2
CHECKS=${@:-C01 C02 C03 C04 C05 C06 C07 C08 C09 C10 C11 C12 C13 C14 C15 C16 C17 C18 C19 C20}
for s in $SEEDS; do
  for c in $CHECKS; do
    t0=$(date +%s)
    out=$(./check $c --tier $TIER --seed $s --no-evidence 2>&1)
    rc=$?
    echo "SWEEP $c tier=$TIER seed=$s exit=$rc wall=$(( $(date +%s) - t0 ))s"
    if [ $rc -ne 0 ]; then echo "$out" | grep -v '^KNOWN-FINDING' | tail -15 | cut -c1-600; fi
  done
done
