#!/venv/bin/python
"""Regenerate MANIFEST.json from the set of property modules that exist.

A property is claimed iff pv/props/cNN.py exists and defines MANIFEST_TEXT
(level text), TECHNIQUE and LEVEL_NOTE. Everything else is listed under
not_applicable with the reason kept in NOT_BUILT below.
"""
import importlib
import json
import os
import sys

HERE = os.path.dirname(os.path.dirname(os.path.abspath(__file__)))
sys.path.insert(0, HERE)
sys.path.insert(0, os.path.join(HERE, '.deps'))

NOT_BUILT = "check not built yet in this round (planned, see DESIGN.md section 5)"


def main():
    props = [json.loads(l) for l in open(os.path.join(HERE, 'properties.jsonl'))]
    checks, na = [], []
    for p in props:
        pid = p['id']
        path = os.path.join(HERE, 'pv', 'props', pid.lower() + '.py')
        mod = None
        if os.path.exists(path):
            mod = importlib.import_module(f"pv.props.{pid.lower()}")
        if mod is None or not hasattr(mod, 'MANIFEST_TEXT'):
            na.append({'property_id': pid, 'reason': NOT_BUILT})
            continue
        checks.append({
            'property_id': pid,
            'quick_cmd': f"./check {pid} --tier quick",
            'thorough_cmd': f"./check {pid} --tier thorough",
            'evidence_file': f"/verif/evidence/{pid}.json",
            'replay_cmd_template': f"./check {pid} --replay {{path}}",
            'engine': 'pv',
            'level_claimed': {
                'category': 'exploration',
                'text': mod.MANIFEST_TEXT,
                'design_ref': f"DESIGN.md section 5, {pid}",
            },
            'level_note': mod.LEVEL_NOTE,
            'technique': mod.TECHNIQUE,
        })
    manifest = {
        'version': 1,
        'setup_cmd': './setup.sh',
        'hooks': {
            'guard': 'PYTRS_VERIF',
            'enable': ('no in-source hooks: monitors are installed from the '
                       'harness by rebinding pytrs module/class attributes at '
                       'run time (pv/monitors); workers run with PYTRS_VERIF=1 '
                       'and import pytrs from the current working tree of /repo'),
            'baseline_off_cmd': ('cd /repo && /venv/bin/python -m pytest -ra -q '
                                 '-p no:cacheprovider --timeout=900 '
                                 '--continue-on-collection-errors'),
            'source_commits': [],
            'add_only': True,
        },
        'engines': [{
            'name': 'pv',
            'path': '/verif/pv',
            'serves_properties': [c['property_id'] for c in checks],
            'kind_free_text': ('runtime monitoring: seeded hostile workloads '
                               'driven through the real pytrs code in fresh '
                               'worker processes, with icontract contracts / '
                               'wrappers on internal functions and reference-'
                               'model oracles over the recorded events'),
        }],
        'checks': checks,
        'not_applicable': na,
        'notes': ('exit 0 held / exit 1 VIOLATION / exit 2 INCONCLUSIVE (a '
                  'deciding monitor observed nothing or a worker died). '
                  'known_findings.json lists recorded and fixed defects.'),
    }
    with open(os.path.join(HERE, 'MANIFEST.json'), 'w') as f:
        json.dump(manifest, f, indent=1)
    print(f"claimed {len(checks)}: {[c['property_id'] for c in checks]}")
    print(f"not_applicable {len(na)}")


if __name__ == '__main__':
    main()
