#!/venv/bin/python
"""Run checks against a seeded change (or any patch) on a scratch worktree.

    tools/seedtest.py PATCH [--props C05,C06 | --all] [--demo demo.py]
                      [--tier quick] [--seeds 0] [--skip-tests] [--scale X]

Steps (all outside /repo and /verif, in a git worktree under /tmp/pvscratch):
  1. worktree of /repo HEAD; demo (if given) must PASS on it;
  2. `git apply PATCH`; the repository's own test-suite must still pass;
  3. demo (if given) must FAIL;
  4. each requested check runs with --repo <worktree> --no-evidence;
  5. the worktree is removed.
Prints one JSON line with the outcome and exits 0 iff every requested check
reported exit 1 (VIOLATION).
"""
import argparse
import json
import os
import shutil
import subprocess
import sys
import time

VERIF = os.path.dirname(os.path.dirname(os.path.abspath(__file__)))
SCRATCH = '/tmp/pvscratch'
PY = '/venv/bin/python'


def run(cmd, cwd=None, timeout=3600, env=None):
    return subprocess.run(cmd, cwd=cwd, capture_output=True, text=True,
                          timeout=timeout, env=env)


def main():
    ap = argparse.ArgumentParser()
    ap.add_argument('patch')
    ap.add_argument('--props', default='')
    ap.add_argument('--all', action='store_true')
    ap.add_argument('--demo', default=None)
    ap.add_argument('--tier', default='quick')
    ap.add_argument('--seeds', default='0')
    ap.add_argument('--skip-tests', action='store_true')
    ap.add_argument('--scale', default=None)
    ap.add_argument('--keep', action='store_true')
    args = ap.parse_args()

    patch = os.path.abspath(args.patch)
    name = f"{os.path.basename(os.path.dirname(patch))}-{os.getpid()}"
    wt = os.path.join(SCRATCH, name)
    os.makedirs(SCRATCH, exist_ok=True)
    out = {'patch': patch, 'worktree': wt}
    r = run(['git', '-C', '/repo', 'worktree', 'add', '-q', '--detach', wt,
             'HEAD'])
    if r.returncode != 0:
        print(json.dumps({'error': r.stderr}))
        return 3
    try:
        env = dict(os.environ)
        env.pop('PYTHONPATH', None)
        if args.demo:
            d0 = run([PY, os.path.abspath(args.demo)], cwd=wt, timeout=600)
            out['demo_clean_exit'] = d0.returncode
        r = run(['git', '-C', wt, 'apply', patch])
        if r.returncode != 0:
            out['error'] = 'patch does not apply: ' + r.stderr[-300:]
            print(json.dumps(out))
            return 3
        if not args.skip_tests:
            t = run([PY, '-m', 'pytest', '-q', '-p', 'no:cacheprovider',
                     '-x'], cwd=wt, timeout=1800)
            tail = (t.stdout.strip().splitlines() or [''])[-1]
            out['tests'] = tail
            out['tests_pass'] = t.returncode == 0
        if args.demo:
            d1 = run([PY, os.path.abspath(args.demo)], cwd=wt, timeout=600)
            out['demo_patched_exit'] = d1.returncode
            out['demo_patched_tail'] = (d1.stdout + d1.stderr)[-300:]
        props = [p for p in args.props.split(',') if p]
        if args.all:
            props = [f"C{i:02d}" for i in range(1, 21)]
        out['checks'] = {}
        for p in props:
            for seed in args.seeds.split(','):
                cmd = [os.path.join(VERIF, 'check'), p, '--tier', args.tier,
                       '--repo', wt, '--no-evidence', '--seed', seed]
                if args.scale:
                    cmd += ['--scale', args.scale]
                t0 = time.time()
                c = run(cmd, cwd=VERIF, timeout=7200)
                lines = c.stdout.splitlines()
                kinds = [ln.strip() for ln in lines
                         if ln.strip().startswith('kind=')][:3]
                out['checks'][f"{p}@{seed}"] = {
                    'exit': c.returncode,
                    'wall_s': round(time.time() - t0, 1),
                    'first': [k[:220] for k in kinds],
                    'inconclusive': [ln[:200] for ln in lines
                                     if ln.startswith('INCONCLUSIVE')][:2],
                }
        print(json.dumps(out, indent=1, ensure_ascii=False))
        caught = all(v['exit'] == 1 for v in out['checks'].values())
        return 0 if (caught and out['checks']) else 1
    finally:
        if not args.keep:
            run(['git', '-C', '/repo', 'worktree', 'remove', '--force', wt])
            shutil.rmtree(wt, ignore_errors=True)
            run(['git', '-C', '/repo', 'worktree', 'prune'])


if __name__ == '__main__':
    sys.exit(main())
