#!/venv/bin/python
"""Run the checks against every seeded change and record who catches what.

    tools/seedmatrix.py [--only C05-m1,...] [--all-checks] [--out seeded/matrix.json]

For each /verif/seeded/<id>/ (patch.diff, demo.py): tools/seedtest.py runs
the target property's quick check (and, with --all-checks, every other
check except C16, whose CPU-time budget is disturbed by parallel load) on a
scratch worktree with the patch applied. Results are merged into
seeded/matrix.json: {id: {check: exit code}}.
"""
import argparse
import glob
import json
import os
import subprocess
import sys

VERIF = os.path.dirname(os.path.dirname(os.path.abspath(__file__)))


def main():
    ap = argparse.ArgumentParser()
    ap.add_argument('--only', default='')
    ap.add_argument('--all-checks', action='store_true')
    ap.add_argument('--out', default=os.path.join(VERIF, 'seeded', 'matrix.json'))
    ap.add_argument('--seeds', default='0')
    args = ap.parse_args()
    matrix = {}
    if os.path.exists(args.out):
        matrix = json.load(open(args.out))
    only = set(x for x in args.only.split(',') if x)
    for d in sorted(glob.glob(os.path.join(VERIF, 'seeded', 'C*'))):
        sid = os.path.basename(d)
        if only and sid not in only:
            continue
        prop = sid.split('-')[0]
        props = [prop]
        try:
            meta = json.load(open(os.path.join(d, 'meta.json')))
            props += [x for x in meta.get('also_run', []) if x not in props]
        except (OSError, ValueError):
            pass
        if args.all_checks:
            props += [f"C{i:02d}" for i in range(1, 21)
                      if f"C{i:02d}" not in (prop, 'C16')]
        cmd = [os.path.join(VERIF, 'tools', 'seedtest.py'),
               os.path.join(d, 'patch.diff'), '--props', ','.join(props),
               '--demo', os.path.join(d, 'demo.py'), '--seeds', args.seeds]
        r = subprocess.run(cmd, capture_output=True, text=True)
        try:
            res = json.loads(r.stdout)
        except ValueError:
            print(sid, 'ERROR', r.stdout[-300:], r.stderr[-300:])
            continue
        row = matrix.setdefault(sid, {})
        row['_demo'] = [res.get('demo_clean_exit'), res.get('demo_patched_exit')]
        row['_tests'] = res.get('tests')
        if 'checks' not in res:
            row['_error'] = str(res.get('error') or res)[:300]
            print(sid, 'NOT RUN', row['_error'])
            continue
        for k, v in res['checks'].items():
            row[k] = v['exit']
            if v['exit'] == 1 and v['first']:
                row.setdefault('_witness', {})[k] = v['first'][0][:200]
        caught = sorted(k for k, v in row.items()
                        if not k.startswith('_') and v == 1)
        print(sid, 'target', {k: v for k, v in row.items()
                              if k.startswith(prop + '@')},
              'caught by', caught, flush=True)
        with open(args.out, 'w') as f:
            json.dump(matrix, f, indent=1, sort_keys=True)


if __name__ == '__main__':
    sys.exit(main())
