#!/venv/bin/python
"""Re-apply the reverse patch of every fix (selftest/mutants/revert-<prop>-<sha>.patch)
on a scratch worktree and run the property's quick check against it.

    tools/reverts.py [--only sha,...]  -> selftest/reverts.json

Exit code of the check must be 1 (the defect is back and is reported). A
patch that no longer applies on the current tree (later fixes rewrote the
same lines) is listed as such.
"""
import glob
import json
import os
import subprocess
import sys

VERIF = os.path.dirname(os.path.dirname(os.path.abspath(__file__)))


def main():
    only = set()
    if '--only' in sys.argv:
        only = set(sys.argv[sys.argv.index('--only') + 1].split(','))
    out = {}
    res_path = os.path.join(VERIF, 'selftest', 'reverts.json')
    if only and os.path.exists(res_path):
        out = json.load(open(res_path))
    for f in sorted(glob.glob(os.path.join(VERIF, 'selftest', 'mutants',
                                           'revert-*.patch'))):
        name = os.path.basename(f)[len('revert-'):-len('.patch')]
        prop, sha = name.split('-')
        if only and sha not in only:
            continue
        chk = subprocess.run(['git', '-C', '/repo', 'apply', '--check', f],
                             capture_output=True, text=True)
        if chk.returncode != 0:
            out[name] = {'applies': False}
            print(name, 'does not apply on the current tree', flush=True)
            continue
        r = subprocess.run([os.path.join(VERIF, 'tools', 'seedtest.py'), f,
                            '--props', prop, '--skip-tests'],
                           capture_output=True, text=True)
        try:
            res = json.loads(r.stdout[r.stdout.index('{'):])
            c = res['checks'][f'{prop}@0']
            out[name] = {'applies': True, 'exit': c['exit'],
                         'first': (c.get('first') or [''])[0][:200]}
        except (ValueError, KeyError) as e:
            out[name] = {'applies': True, 'error': repr(e)}
        print(name, out[name], flush=True)
        with open(os.path.join(VERIF, 'selftest', 'reverts.json'), 'w') as fh:
            json.dump(out, fh, indent=1, sort_keys=True)
    bad = [k for k, v in out.items() if v.get('applies') and v.get('exit') != 1]
    print('not caught:', bad)
    return 1 if bad else 0


if __name__ == '__main__':
    sys.exit(main())
