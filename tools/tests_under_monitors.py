#!/venv/bin/python
"""Run /repo's own 244 tests with every contract-type monitor installed.

Exit 0 iff the tests pass and no contract observed anything. (A contract that
fires here is either too strict or a defect the tests do not assert.)
"""
import json
import os
import subprocess
import sys
import tempfile

VERIF = os.path.dirname(os.path.dirname(os.path.abspath(__file__)))
repo = sys.argv[1] if len(sys.argv) > 1 else '/repo'
subprocess.run(['/bin/sh', os.path.join(VERIF, 'setup.sh')], check=True)
out = tempfile.mktemp(suffix='.json', dir=os.path.join(VERIF, '.work')
                      if os.path.isdir(os.path.join(VERIF, '.work')) else None)
env = dict(os.environ, PYTHONPATH=os.pathsep.join(
    [repo, VERIF, os.path.join(VERIF, '.deps')]),
    PV_TESTS_UNDER_MONITORS_OUT=out, PYTHONDONTWRITEBYTECODE='1')
cp = subprocess.run(['/venv/bin/python', '-m', 'pytest', '-q', '-p',
                     'no:cacheprovider', '-p', 'pv.pytest_monitors'],
                    cwd=repo, env=env)
res = json.load(open(out)) if os.path.exists(out) else {'observations': -1}
if os.path.exists(out):
    os.remove(out)
sys.exit(0 if cp.returncode == 0 and res['observations'] == 0 else 1)
