"""Shard planning, subprocess workers, verdict, evidence, replay files."""

import argparse
import collections
import concurrent.futures
import importlib
import json
import os
import shutil
import subprocess
import sys
import time

from . import findings as findings_mod
from .common import h

VERIF = os.path.dirname(os.path.dirname(os.path.abspath(__file__)))
PY = '/venv/bin/python'
DEFAULT_REPO = '/repo'

SHARD_TIMEOUT = {'quick': 600, 'thorough': 5400}
MAX_VIOLATION_LINES = 12


def ensure_deps():
    ok = os.path.join(VERIF, '.deps', '.ok')
    if not os.path.exists(ok):
        subprocess.run(['/bin/sh', os.path.join(VERIF, 'setup.sh')],
                       check=True, stdout=subprocess.DEVNULL)


def repo_state(repo):
    def git(*a):
        try:
            return subprocess.run(
                ['git', '-C', repo] + list(a), capture_output=True,
                text=True, timeout=30).stdout.strip()
        except Exception:
            return ''
    head = git('rev-parse', 'HEAD')
    dirty = bool(git('status', '--porcelain', '--untracked-files=no'))
    return head, dirty


def worker_env(repo):
    env = dict(os.environ)
    env['PYTHONHASHSEED'] = '0'
    env['PYTRS_VERIF'] = '1'
    env['PYTHONDONTWRITEBYTECODE'] = '1'
    env['PYTHONPATH'] = os.pathsep.join(
        [repo, VERIF, os.path.join(VERIF, '.deps')])
    # The sandbox's coverage .pth must stay inert.
    env.pop('COVERAGE_PROCESS_START', None)
    env.pop('COVERAGE_PROCESS_CONFIG', None)
    return env


def run_one(prop, repo, job, workdir, idx, timeout):
    shard_file = os.path.join(workdir, f"shard{idx}.in.json")
    out_file = os.path.join(workdir, f"shard{idx}.out.json")
    with open(shard_file, 'w') as f:
        json.dump(job, f)
    cmd = [PY, '-m', 'pv.worker', '--prop', prop, '--repo', repo,
           '--shard-file', shard_file, '--out', out_file,
           '--watchdog', str(max(5, timeout - 5))]
    t0 = time.time()
    env = worker_env(repo)
    env['PV_WORKDIR'] = workdir
    try:
        cp = subprocess.run(
            cmd, cwd=VERIF, env=env, capture_output=True,
            text=True, timeout=timeout)
    except subprocess.TimeoutExpired as e:
        err = e.stderr or ''
        if isinstance(err, bytes):
            err = err.decode('utf-8', 'replace')
        return _failed('timeout', err, t0, job, out_file)
    if cp.returncode != 0 or not os.path.exists(out_file):
        return _failed(f'exit {cp.returncode}', cp.stderr or '', t0, job,
                       out_file)
    with open(out_file) as f:
        res = json.load(f)
    res['stderr_tail'] = (cp.stderr or '')[-600:]
    return res


def anchor_coverage(prop, repo, jobs, workdir):
    """
    Line coverage of the property's anchor files (properties.jsonl) reached
    by one scaled-down shard of every workload family, measured with
    coverage.py in separate worker runs (informational; thorough tier).
    """
    anchors = []
    try:
        with open(os.path.join(VERIF, 'properties.jsonl')) as f:
            for line in f:
                rec = json.loads(line)
                if rec['id'] == prop:
                    anchors = rec['anchors']['files']
    except OSError:
        return None
    seen, picked = set(), []
    for job in jobs:
        fam = job['shard'].get('family')
        if fam in seen:
            continue
        seen.add(fam)
        j = json.loads(json.dumps(job))
        for k in ('n', 'steps'):
            if k in j['shard']:
                j['shard'][k] = max(5, min(j['shard'][k], 150))
        picked.append(j)
    data = os.path.join(workdir, 'cov.data')
    env = worker_env(repo)
    env['PV_WORKDIR'] = workdir
    env['COVERAGE_FILE'] = data
    for i, job in enumerate(picked):
        sf = os.path.join(workdir, f"cov{i}.in.json")
        with open(sf, 'w') as f:
            json.dump(job, f)
        cmd = [PY, '-m', 'coverage', 'run', '-a', '--include',
               os.path.join(repo, 'pytrs', '*'), '-m', 'pv.worker', '--prop',
               prop, '--repo', repo, '--shard-file', sf, '--out',
               os.path.join(workdir, f"cov{i}.out.json")]
        try:
            subprocess.run(cmd, cwd=VERIF, env=env, capture_output=True,
                           timeout=900)
        except subprocess.TimeoutExpired:
            continue
    rep = os.path.join(workdir, 'cov.json')
    subprocess.run([PY, '-m', 'coverage', 'json', '-o', rep, '-q'],
                   cwd=VERIF, env=env, capture_output=True)
    if not os.path.exists(rep):
        return None
    files = json.load(open(rep)).get('files', {})
    out = {}
    for a in anchors:
        for fn, d in files.items():
            if fn.endswith(a):
                sm = d['summary']
                out[a] = {'covered_lines': sm['covered_lines'],
                          'statements': sm['num_statements'],
                          'percent': round(sm['percent_covered'], 1)}
    return out


def _failed(why, stderr, t0, job, out_file):
    """A worker that hung or died: keep what it had observed so far."""
    res = {'failed': why, 'stderr': stderr[-3000:],
           'wall_s': time.time() - t0, 'shard': job['shard']}
    partial = out_file + '.partial'
    if os.path.exists(partial):
        try:
            with open(partial) as f:
                res['partial'] = json.load(f)
        except (OSError, ValueError):
            pass
    return res


def aggregate(results):
    agg = {
        'evaluations': 0, 'nontrivial': set(),
        'hist': collections.Counter(), 'hits': collections.Counter(),
        'discarded': collections.Counter(), 'samples': [],
        'violations': [], 'n_violations': 0, 'failures': [],
        'extra': [], 'cpu_s': 0.0,
    }
    for r in results:
        if r.get('failed'):
            agg['failures'].append(r)
            r = r.get('partial')
            if not r:
                continue
        agg['evaluations'] += r['evaluations']
        agg['nontrivial'].update(r['nontrivial'])
        agg['hist'].update(r['hist'])
        agg['hits'].update(r['hits'])
        agg['discarded'].update(r['discarded'])
        agg['violations'].extend(r['violations'])
        agg['n_violations'] += r['n_violations']
        agg['cpu_s'] += r.get('cpu_s', 0.0)
        if r.get('extra'):
            agg['extra'].append(r['extra'])
        agg['samples'].append(r['samples'])
    # Interleave the samples of all shards, keep a dozen.
    merged = []
    pools = [list(s) for s in agg['samples'] if s]
    while pools and len(merged) < 12:
        for p in list(pools):
            if p:
                merged.append(p.pop(0))
            if not p:
                pools.remove(p)
            if len(merged) >= 12:
                break
    agg['samples'] = merged
    return agg


def per_tier(value, tier, default=None):
    if isinstance(value, dict):
        return value.get(tier, default)
    return value if value is not None else default


def main(argv=None):
    ap = argparse.ArgumentParser(prog='check')
    ap.add_argument('prop')
    ap.add_argument('--tier', default=os.environ.get('VERIF_TIER') or 'quick',
                    choices=['quick', 'thorough'])
    ap.add_argument('--seed', type=int,
                    default=int(os.environ.get('VERIF_SEED') or 0))
    ap.add_argument('--repo', default=DEFAULT_REPO)
    ap.add_argument('--replay', default=None)
    ap.add_argument('--workers', type=int,
                    default=int(os.environ.get('VERIF_WORKERS') or 0))
    ap.add_argument('--no-evidence', action='store_true',
                    help='do not rewrite evidence/<id>.json (self-tests)')
    ap.add_argument('--coverage', action='store_true',
                    help='also measure anchor-file line coverage (default in '
                         'the thorough tier)')
    ap.add_argument('--scale', type=float,
                    default=float(os.environ.get('VERIF_SCALE') or 1.0),
                    help='scale workload sizes (self-tests only)')
    args = ap.parse_args(argv)

    prop = args.prop.upper()
    repo = os.path.abspath(args.repo)
    ensure_deps()
    sys.path.insert(0, os.path.join(VERIF, '.deps'))
    mod = importlib.import_module(f"pv.props.{prop.lower()}")
    t0 = time.time()

    workdir = os.path.join(VERIF, '.work', f"{prop}-{os.getpid()}")
    shutil.rmtree(workdir, ignore_errors=True)
    os.makedirs(workdir)

    try:
        if args.replay:
            with open(args.replay) as f:
                rp = json.load(f)
            jobs = [{'tier': args.tier, 'seed': rp.get('seed', args.seed),
                     'shard': {'replay': True}, 'replay': rp['case']}]
        else:
            shards = mod.plan(args.tier, args.seed)
            if args.scale != 1.0:
                for s in shards:
                    if 'n' in s:
                        s['n'] = max(1, int(s['n'] * args.scale))
            jobs = [{'tier': args.tier, 'seed': args.seed, 'shard': s}
                    for s in shards]
        nworkers = args.workers or min(16, os.cpu_count() or 4, len(jobs))
        timeout = per_tier(getattr(mod, 'SHARD_TIMEOUT', None), args.tier,
                           SHARD_TIMEOUT[args.tier])
        with concurrent.futures.ThreadPoolExecutor(nworkers) as ex:
            futs = [ex.submit(run_one, prop, repo, job, workdir, i, timeout)
                    for i, job in enumerate(jobs)]
            results = [f.result() for f in futs]
        cov = None
        if (args.tier == 'thorough' or args.coverage) and not args.replay:
            try:
                cov = anchor_coverage(prop, repo, jobs, workdir)
            except Exception as e:       # informational only
                cov = {'error': repr(e)}
    finally:
        shutil.rmtree(workdir, ignore_errors=True)

    agg = aggregate(results)
    wall = time.time() - t0

    # ---- classify violations --------------------------------------------
    known = findings_mod.load_known(prop)
    classify = getattr(mod, 'classify', None)
    real, seen_known = [], collections.OrderedDict()
    for v in agg['violations']:
        fid = None
        if classify is not None:
            try:
                fid = classify(v)
            except Exception as e:   # a broken classifier suppresses nothing
                fid = None
                v['classifier_error'] = repr(e)
        fids = [fid] if isinstance(fid, str) else list(fid or [])
        if fids and all(f in known for f in fids):
            for f in fids:
                seen_known.setdefault(f, []).append(v)
        else:
            real.append(v)

    # ---- inconclusive conditions ----------------------------------------
    inconclusive = []
    for fl in agg['failures']:
        inconclusive.append(
            f"worker {fl['failed']} on shard {json.dumps(fl['shard'])[:120]}: "
            f"{(fl.get('stderr') or '').strip().splitlines()[-1:] or ''}")
    if not args.replay:
        for mon in per_tier(getattr(mod, 'REQUIRED_MONITORS', []),
                            args.tier, []):
            if agg['hits'].get(mon, 0) == 0:
                inconclusive.append(f"deciding monitor '{mon}' had 0 evaluations")
        floor = per_tier(getattr(mod, 'MIN_NONTRIVIAL', 2), args.tier, 2)
        floor = max(2, int(floor * min(1.0, args.scale)))
        if len(agg['nontrivial']) < floor:
            inconclusive.append(
                f"only {len(agg['nontrivial'])} distinct non-trivial cases "
                f"(floor {floor})")

    # ---- evidence -------------------------------------------------------
    head, dirty = repo_state(repo)
    coverage = {
        'evaluations': agg['evaluations'],
        'distinct_nontrivial': len(agg['nontrivial']),
        'rule': getattr(mod, 'RULE', ''),
        'samples': agg['samples'],
        'monitor_hits': dict(sorted(agg['hits'].items())),
        'shape_histogram': dict(sorted(agg['hist'].items())),
        'discarded': dict(sorted(agg['discarded'].items())),
        'known_findings_seen': {k: len(v) for k, v in seen_known.items()},
        'shards': len(jobs),
        'worker_failures': len(agg['failures']),
        'worker_cpu_s': round(agg['cpu_s'], 2),
        'inconclusive': inconclusive,
        'repo': repo, 'repo_head': head, 'repo_dirty': dirty,
        'exhaustive': bool(per_tier(getattr(mod, 'EXHAUSTIVE', False),
                                    args.tier, False)),
    }
    if cov:
        coverage['anchor_line_coverage'] = cov
    exh = per_tier(getattr(mod, 'EXHAUSTIVE_SUBSPACES', None), args.tier, None)
    if exh:
        coverage['exhaustive_subspaces'] = exh
    summarise = getattr(mod, 'summarise_extra', None)
    if summarise and agg['extra']:
        try:
            coverage['extra'] = summarise(agg['extra'])
        except Exception as e:
            coverage['extra'] = {'error': repr(e)}
    evidence = {
        'property_id': prop,
        'tier': args.tier,
        'seed': args.seed,
        'level': getattr(mod, 'LEVEL', 'exploration'),
        'coverage': coverage,
        'assumptions': list(getattr(mod, 'ASSUMPTIONS', [])),
        'wall_s': round(wall, 2),
        'violations': len(real),
    }
    if not args.no_evidence and not args.replay:
        os.makedirs(os.path.join(VERIF, 'evidence'), exist_ok=True)
        ev_path = os.path.join(VERIF, 'evidence', f"{prop}.json")
        with open(ev_path + '.tmp', 'w') as f:
            json.dump(evidence, f, indent=1, ensure_ascii=False, default=repr)
        os.replace(ev_path + '.tmp', ev_path)

    # ---- report ----------------------------------------------------------
    print(f"[{prop}] tier={args.tier} seed={args.seed} repo={repo} "
          f"head={head[:10]}{'+dirty' if dirty else ''}")
    print(f"[{prop}] evaluations={agg['evaluations']} "
          f"distinct_nontrivial={len(agg['nontrivial'])} "
          f"shards={len(jobs)} wall={wall:.1f}s cpu={agg['cpu_s']:.1f}s")
    if agg['hits']:
        hits = ', '.join(f"{k}={v}" for k, v in sorted(agg['hits'].items()))
        print(f"[{prop}] monitor evaluations: {hits}")
    for fid, vs in seen_known.items():
        v = vs[0]
        print(f"KNOWN-FINDING: property={prop} {fid}: {known[fid]['what']} "
              f"[{len(vs)} witness(es) this run, e.g. "
              f"{json.dumps(v['case'], ensure_ascii=False, default=repr)[:240]}]")
    if real:
        rdir = os.path.join(VERIF, 'replays', prop)
        os.makedirs(rdir, exist_ok=True)
        # Group by kind so that the lines shown are diverse.
        by_kind = collections.OrderedDict()
        for v in real:
            by_kind.setdefault(v['kind'], []).append(v)
        shown = 0
        for kind, vs in by_kind.items():
            for v in vs[:3]:
                if shown >= MAX_VIOLATION_LINES:
                    break
                rp = {'property': prop, 'seed': args.seed, 'tier': args.tier,
                      'kind': v['kind'], 'case': v['case'],
                      'detail': v['detail'],
                      'extra': {k: v[k] for k in v
                                if k not in ('kind', 'case', 'detail')},
                      'repo_head': head, 'repo_dirty': dirty}
                path = os.path.join(rdir, f"{h(rp['case'])}-{h(kind)[:6]}.json")
                with open(path, 'w') as f:
                    json.dump(rp, f, indent=1, ensure_ascii=False, default=repr)
                print(f"VIOLATION property={prop} replay={path}")
                print(f"    kind={v['kind']} detail={str(v['detail'])[:400]}")
                shown += 1
        with open(os.path.join(rdir, '_last_run_violations.json'), 'w') as f:
            json.dump([{'kind': v['kind'], 'detail': v['detail'],
                        'case': v['case'],
                        'extra': {k: v[k] for k in v
                                  if k not in ('kind', 'case', 'detail',
                                               'traceback')}}
                       for v in real], f, indent=1, ensure_ascii=False,
                      default=repr)
        print(f"[{prop}] {agg['n_violations']} violating observation(s) "
              f"in total, {len(real)} kept, kinds: "
              f"{ {k: len(v) for k, v in by_kind.items()} }")
        return 1
    if inconclusive:
        for why in inconclusive:
            print(f"INCONCLUSIVE property={prop} {why}")
        for fl in agg['failures'][:3]:
            print((fl.get('stderr') or '')[-1500:])
        return 2
    print(f"[{prop}] held on everything observed")
    return 0


if __name__ == '__main__':
    sys.exit(main())
