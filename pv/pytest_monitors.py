"""pytest plugin: run the repository's own test-suite under all contracts.

    cd /repo && PYTHONPATH=/verif:/verif/.deps /venv/bin/python -m pytest -q \
        -p no:cacheprovider -p pv.pytest_monitors

Installs every contract-type monitor of the framework (they record and never
raise), then reports at the end of the session how often each was evaluated
and what, if anything, it observed. A contract firing here is either too
strict (the repository's tests exercise legitimate behaviour) or a defect the
tests do not assert -- each firing is to be read, not silenced. Used by
tools/tests_under_monitors.py; not part of any registered check.
"""

import collections
import json
import os

_STATE = {}


def pytest_configure(config):
    import warnings
    warnings.simplefilter('ignore')
    from pv.common import Ctx
    from pv.monitors.core import Reporter
    from pv.monitors import (trs_contract, aliquot_contract, flags_invariant)
    from pv.props import c05, c07, c08, c09, c14, c17, c18
    ctx = Ctx('ALL', 'quick', 0, {'suite': 'repo-tests'})
    rep = Reporter(ctx)
    rep.set_case({'suite': 'repository test-suite'})
    import pytrs  # noqa: F401
    trs_contract.install(ctx, rep, prop='C12')
    aliquot_contract.install(ctx, rep)
    flags_invariant.install(ctx, rep)
    c05.install_contracts(ctx, rep)
    c09.install_contract(ctx, rep)
    c14.install_contracts(ctx, rep)
    c17.install_contract(ctx, rep)
    c18.install_contracts(ctx, rep)
    # C07 / C08 install their contract inside _setup(); reuse them.
    for mod in (c07, c08):
        try:
            mod._setup(ctx)
        except Exception as e:          # pragma: no cover
            print(f"[pv] could not install {mod.__name__}: {e!r}")
    _STATE['ctx'] = ctx


def pytest_runtest_setup(item):
    ctx = _STATE.get('ctx')
    if ctx is not None:
        _STATE['current'] = item.nodeid


def pytest_sessionfinish(session, exitstatus):
    ctx = _STATE.get('ctx')
    if ctx is None:
        return
    hits = dict(sorted(ctx.hits.items()))
    kinds = collections.Counter(v['kind'] for v in ctx.violations)
    out = {'monitor_evaluations': hits, 'observations': ctx.n_violations,
           'kinds': dict(kinds),
           'first': [{'kind': v['kind'], 'detail': v['detail'][:400]}
                     for v in ctx.violations[:20]]}
    path = os.environ.get('PV_TESTS_UNDER_MONITORS_OUT')
    if path:
        with open(path, 'w') as f:
            json.dump(out, f, indent=1, ensure_ascii=False)
    print("\n[pv] contracts evaluated while the repository's tests ran:")
    for k, v in hits.items():
        print(f"[pv]   {k}: {v}")
    print(f"[pv] contract observations: {ctx.n_violations} {dict(kinds)}")
    for v in ctx.violations[:10]:
        print(f"[pv]   {v['kind']}: {v['detail'][:300]}")
