"""icontract post-condition on the real parse_aliquot (C02).

Installed on every binding (aliquot_parse.parse_aliquot and the alias
imported into tract_parse), so it is evaluated on every aliquot any workload
parses -- not only on the calls the C02 workload makes itself.
"""

import icontract

from ..oracles import aliquot as A


class AliquotContractBroken(Exception):
    pass


def install(ctx, reporter, prop='C02'):
    from pytrs.parser.tract import aliquot_parse as AP
    from . import core

    def pieces_tile_region(text, qq_depth_min, qq_depth_max, qq_depth,
                           break_halves, result):
        ctx.hit('contract:parse_aliquot')
        mn, mx = qq_depth_min, qq_depth_max
        if qq_depth is not None:
            mn = mx = qq_depth
        chain = A.parse_chain_text(text) if isinstance(text, str) else None
        if chain is None or not isinstance(mn, int) or mn < 1 \
                or (mx is not None and (not isinstance(mx, int) or mx < mn)):
            ctx.hit('contract:parse_aliquot:skipped')
            return True
        why = A.check_pieces(chain, mn, mx, bool(break_halves), result)
        if why is not None:
            reporter.report(
                f'{prop}:parse_aliquot-contract',
                f"parse_aliquot({text!r}, min={mn}, max={mx}, "
                f"break_halves={break_halves}) -> {result}: {why}",
                dedup=why[:40], chain=chain, settings=[mn, mx, break_halves])
        return True

    orig = AP.parse_aliquot
    checked = icontract.ensure(
        pieces_tile_region, error=AliquotContractBroken)(orig)
    n = core.rebind_function(orig, checked)
    ctx.extra['parse_aliquot_bindings'] = n
    return checked
