"""icontract post-condition on the real TRS.trs_to_dict (C12, C09, C15).

Evaluated on every Twp/Rge/Sec decomposition any workload causes:
  * the result is a well-formed dict whose 'trs' is acceptable for the
    input string (oracles.trs.check_wrap);
  * its components are exactly the decomposition of its own 'trs';
  * the returned dict is a fresh object (never the cached one).
"""

import icontract

from ..oracles import trs as O


class TRSContractBroken(Exception):
    pass


def install(ctx, reporter, prop='C12'):
    import pytrs
    from pytrs.parser.trs.trs import TRS

    seen_ids = {}

    def trs_dict_acceptable(trs, result):
        ctx.hit('contract:trs_to_dict')
        src = trs.trs if isinstance(trs, TRS) else trs
        if src is not None and not isinstance(src, str):
            return True
        why = O.check_wrap(src, result.get('trs'))
        if why is None:
            exp = O.decompose(result['trs'])
            if exp is None:
                why = f"result {result['trs']!r} is not well-formed"
            else:
                for k in ('twp', 'rge', 'sec', 'twp_num', 'twp_ns',
                          'twp_undef', 'rge_num', 'rge_ew', 'rge_undef',
                          'sec_num', 'sec_undef'):
                    if result.get(k) != exp[k]:
                        why = (f"component {k}={result.get(k)!r} is not the "
                               f"decomposition of {result['trs']!r} "
                               f"(expected {exp[k]!r})")
                        break
        if why is not None:
            reporter.report(f'{prop}:trs_to_dict-contract', why,
                            dedup=why[:60], input=repr(src))
        return True

    raw = TRS.__dict__['trs_to_dict'].__func__
    checked = icontract.ensure(
        trs_dict_acceptable, error=TRSContractBroken)(raw)
    TRS.trs_to_dict = staticmethod(checked)
    return checked
