"""Observation hooks on the internal steps of the PLSS description parser.

They append structured events to ``Recorder.events`` (reset per case by the
workload) and never alter arguments or results. Used for witnesses (C01),
conservation checks (C04), hand-off counting (C11), mode observations (C20).
"""

import copy

from . import core


class Recorder:
    def __init__(self, ctx):
        self.ctx = ctx
        self.events = []
        self.enabled = True

    def reset(self):
        self.events = []

    def add(self, ev, **data):
        if self.enabled:
            data['ev'] = ev
            self.events.append(data)

    def of(self, ev):
        return [e for e in self.events if e['ev'] == ev]


def install(ctx, rec=None, scrubbers=True):
    import pytrs  # noqa: F401
    from pytrs.parser.plssdesc import plss_parse as PP
    from pytrs.parser.plssdesc import plss_preprocess as PRE
    from pytrs.parser import rgxlib

    rec = rec or Recorder(ctx)

    # -- deduce_layout ---------------------------------------------------
    orig_deduce = PP.deduce_layout

    def after_deduce(tok, args, kwargs, result, exc):
        ctx.hit('hook:deduce_layout')
        txt = args[0] if args else kwargs.get('text')
        rec.add('deduce_layout', text=txt, layout=result)
    core.rebind_function(
        orig_deduce, core.wrap_function(orig_deduce, None, after_deduce))

    # -- SecFinder -------------------------------------------------------
    def after_findsec(tok, args, kwargs, result, exc):
        ctx.hit('hook:findall_matching_sec')
        self = args[0]
        rc = kwargs.get('require_colon', args[3] if len(args) > 3 else False)
        rec.add('find_sec', require_colon=str(rc),
                layout=kwargs.get('layout', args[2] if len(args) > 2 else None),
                n_matches=len(self.matches),
                flags=[str(f) for f in self.flags])
    core.wrap_method(PP.SecFinder, 'findall_matching_sec', None, after_findsec)

    # -- ChunkParser -----------------------------------------------------
    CP = PP.ChunkParser
    counter = [0]

    def cid(obj):
        # id() values are reused once an object is freed: number the
        # ChunkParser objects themselves.
        if '_pv_cid' not in obj.__dict__:
            counter[0] += 1
            obj.__dict__['_pv_cid'] = counter[0]
        return obj.__dict__['_pv_cid']

    def before_init(args, kwargs):
        ctx.hit('hook:ChunkParser.__init__')
        self = args[0]
        text = args[1] if len(args) > 1 else kwargs.get('text')
        layout = args[2] if len(args) > 2 else kwargs.get('layout')
        rec.add('chunk_init', chunk=cid(self), text=text, layout=layout,
                hand_off=kwargs.get('hand_off', True))
    core.wrap_method(CP, '__init__', before_init, None)

    def after_markers(tok, args, kwargs, result, exc):
        ctx.hit('hook:populate_markers')
        self = args[0]
        rec.add('markers', chunk=cid(self), text=self.text,
                markers=[(p, self.markers_dict[p]) for p in self.markers_list],
                secs=[list(v) for _, v, _, _ in self.sec_matches],
                twprges=[v for _, v, _, _ in self.twprge_matches])
    core.wrap_method(CP, 'populate_markers', None, after_markers)

    def before_stage(args, kwargs):
        ctx.hit('hook:_stage_new_tract')
        self = args[0]
        rec.add('stage', chunk=cid(self), desc=args[1],
                sec=list(args[2]) if args[2] is not None else None,
                twprge=args[3])
    core.wrap_method(CP, '_stage_new_tract', before_stage, None)

    def before_meaningful(args, kwargs):
        self = args[0]
        rec.add('meaningful_enter', chunk=cid(self), layout=args[2],
                text=args[1])

    def after_meaningful(tok, args, kwargs, result, exc):
        ctx.hit('hook:_parse_meaningful')
        self = args[0]
        rec.add('meaningful_exit', chunk=cid(self),
                unused=[list(u) for u in self.unused_components],
                n_staged=len(self.tract_components))
    core.wrap_method(CP, '_parse_meaningful', before_meaningful,
                     after_meaningful)

    def after_copyall(tok, args, kwargs, result, exc):
        ctx.hit('hook:_parse_copyall')
        rec.add('copyall', chunk=cid(args[0]), text=args[1])
    core.wrap_method(CP, '_parse_copyall', None, after_copyall)

    def after_parse_chunk(tok, args, kwargs, result, exc):
        self = args[0]
        rec.add('parse_chunk_exit', chunk=cid(self),
                n_tracts=len(self.tract_components),
                unused=[list(u) for u in self.unused_components],
                raised=repr(exc) if exc else None)
    core.wrap_method(CP, 'parse_chunk', None, after_parse_chunk)

    def before_safe(args, kwargs):
        self = args[0]
        p = self.parent
        return (len(p.tract_components), len(p.unused_components))

    def after_safe(tok, args, kwargs, result, exc):
        ctx.hit('hook:parse_safe')
        self = args[0]
        p = self.parent
        if exc is None:
            rec.add('hand_off', chunk=cid(self), text=self.text,
                    new_tracts=len(p.tract_components) - tok[0],
                    new_unused=len(p.unused_components) - tok[1],
                    tracts=[dict(desc=t['desc'], sec=list(t['sec']),
                                 twprge=t['twprge'])
                            for t in p.tract_components[tok[0]:]],
                    unused=[list(u) for u in p.unused_components[tok[1]:]])
    core.wrap_method(CP, 'parse_safe', before_safe, after_safe)

    # -- PLSSChunker -----------------------------------------------------
    def after_segment(tok, args, kwargs, result, exc):
        ctx.hit('hook:segment')
        self = args[0]
        rec.add('segment', text=self.text, layout=self.layout,
                blocks=list(self.blocks),
                unused_blocks=[list(u) for u in self.unused_blocks])
    core.wrap_method(PP.PLSSChunker, 'segment', None, after_segment)

    # -- rebuild_sec_within ---------------------------------------------
    orig_rsw = PP.rebuild_sec_within

    def before_rsw(args, kwargs):
        tc = args[0] if args else kwargs['tract_components']
        uc = args[1] if len(args) > 1 else kwargs['unused_components']
        return (copy.deepcopy(tc), copy.deepcopy(uc))

    def after_rsw(tok, args, kwargs, result, exc):
        ctx.hit('hook:rebuild_sec_within')
        tc = args[0] if args else kwargs['tract_components']
        uc = args[1] if len(args) > 1 else kwargs['unused_components']
        rec.add('sec_within',
                before_tracts=[t['desc'] for t in tok[0]],
                before_unused=[list(u) for u in tok[1]],
                after_tracts=[t['desc'] for t in tc],
                after_unused=[list(u) for u in uc],
                flagged=[bool(t.get('sec_within')) for t in tc])
    core.rebind_function(
        orig_rsw, core.wrap_function(orig_rsw, before_rsw, after_rsw))

    # -- PLSSParser ------------------------------------------------------
    def before_parser(args, kwargs):
        ctx.hit('hook:PLSSParser.__init__')
        rec.add('plssparser_init',
                text=kwargs.get('text', args[1] if len(args) > 1 else None),
                layout=kwargs.get('layout'),
                params={k: v for k, v in kwargs.items()
                        if k not in ('text', 'source')})
    core.wrap_method(PP.PLSSParser, '__init__', before_parser, None)

    def after_construct(tok, args, kwargs, result, exc):
        ctx.hit('hook:construct_tracts')
        self = args[0]
        rec.add('construct', n=len(self.tracts),
                unused=[list(u) for u in self.unused_components],
                components=[dict(desc=t['desc'], sec=list(t['sec']),
                                 twprge=t['twprge'],
                                 sec_within=t['sec_within'])
                            for t in self.tract_components],
                pp_text=self.text, layout=self.layout)
    core.wrap_method(PP.PLSSParser, 'construct_tracts', None, after_construct)

    # -- preprocessing scrubbers ----------------------------------------
    if scrubbers:
        names = {}
        for nm in ('twprge_regex', 'pp_twprge_no_nswe', 'pp_twprge_no_nsr',
                   'pp_twprge_no_ewt', 'pp_twprge_pm',
                   'pp_twprge_comma_remove', 'pp_twprge_ocr_scrub'):
            names[id(getattr(rgxlib, nm))] = nm
        orig_sub = PRE.sub_scrubber

        def after_sub(tok, args, kwargs, result, exc):
            ctx.hit('hook:sub_scrubber')
            if exc is None and result != args[1]:
                rec.add('scrub', rgx=names.get(id(args[0]), '?'),
                        before=args[1], after=result)
        core.rebind_function(
            orig_sub, core.wrap_function(orig_sub, None, after_sub))

    return rec
