"""icontract class invariants: flag lists are typed and paired (C10).

Installed on the classes that *create* flags, so a badly typed entry is
reported where it is created (the finder / unpacker / parser that appended
it) even if a later step would hide it.
"""

import icontract


class FlagsInvariantBroken(Exception):
    pass


def flags_problem(flags, lines, what):
    """None, or why the pair (flags, flag_lines) is ill-typed."""
    if not isinstance(flags, list) or not isinstance(lines, list):
        return f"{what}: flags/flag_lines are not lists"
    for f in flags:
        if not isinstance(f, str):
            return f"{what}: flag {f!r} is a {type(f).__name__}, not a str"
    for ln in lines:
        if not (isinstance(ln, tuple) and len(ln) == 2
                and all(isinstance(x, str) for x in ln)):
            return (f"{what}: flag line {ln!r} is not a (flag, context) "
                    f"tuple of str")
    if len(flags) != len(lines):
        return (f"{what}: {len(flags)} flags but {len(lines)} flag lines "
                f"({flags[-3:]} / {lines[-3:]})")
    for f, ln in zip(flags, lines):
        if ln[0] != f:
            return f"{what}: flag {f!r} paired with line {ln!r}"
    return None


def object_flags_problem(obj, name):
    for a, b in (('flags', 'flag_lines'), ('w_flags', 'w_flag_lines'),
                 ('e_flags', 'e_flag_lines')):
        if a in obj.__dict__ and b in obj.__dict__:
            why = flags_problem(obj.__dict__[a], obj.__dict__[b],
                                f"{name}.{a}")
            if why:
                return why
    return None


def install(ctx, reporter, prop='C10'):
    from pytrs.parser.plssdesc import plss_parse as PP
    from pytrs.parser.tract import tract_parse as TP
    from pytrs.parser.unpack import unpackers as UP

    def make(name):
        def flags_typed_and_paired(self):
            ctx.hit(f'invariant:{name}')
            why = object_flags_problem(self, name)
            if why is not None:
                reporter.report(f'{prop}:flags-invariant', why,
                                dedup=f"{name}:{why[:50]}", where=name)
            return True
        return flags_typed_and_paired

    classes = [(PP, 'TwpRgeFinder'), (PP, 'SecFinder'), (PP, 'ChunkParser'),
               (PP, 'PLSSParser'), (TP, 'TractParser'), (UP, 'SecUnpacker'),
               (UP, 'LotUnpacker')]
    for mod, name in classes:
        cls = getattr(mod, name)
        icontract.invariant(make(name), error=FlagsInvariantBroken)(cls)
