"""Installing wrappers and contracts on the real pytrs code from outside.

Nothing in /repo is edited: attributes of modules and classes are rebound
at run time, including every `from m import f` alias held by another
pytrs module (a name bound before the wrapper is installed would otherwise
bypass it -- every monitor counts its evaluations so that a bypassed
monitor shows up as zero hits).
"""

import functools
import sys


def pytrs_modules():
    return [m for name, m in list(sys.modules.items())
            if (name == 'pytrs' or name.startswith('pytrs.')) and m is not None]


def rebind_function(original, replacement):
    """Rebind every pytrs module global that IS ``original``."""
    n = 0
    for m in pytrs_modules():
        for k, v in list(vars(m).items()):
            if v is original:
                setattr(m, k, replacement)
                n += 1
    return n


def wrap_function(original, before=None, after=None):
    """
    Observation-only wrapper: ``before(args, kwargs)`` may return a token,
    ``after(token, args, kwargs, result, exc)`` sees the outcome. Neither
    may alter arguments or results.
    """
    @functools.wraps(original)
    def wrapper(*args, **kwargs):
        token = before(args, kwargs) if before is not None else None
        try:
            result = original(*args, **kwargs)
        except BaseException as e:
            if after is not None:
                after(token, args, kwargs, None, e)
            raise
        if after is not None:
            after(token, args, kwargs, result, None)
        return result
    wrapper.__pv_original__ = original
    return wrapper


def wrap_method(cls, name, before=None, after=None):
    """Wrap ``cls.name`` (plain, static or class method) in place."""
    raw = cls.__dict__[name]
    if isinstance(raw, staticmethod):
        new = staticmethod(wrap_function(raw.__func__, before, after))
    elif isinstance(raw, classmethod):
        new = classmethod(wrap_function(raw.__func__, before, after))
    else:
        new = wrap_function(raw, before, after)
    setattr(cls, name, new)
    return new


class Reporter:
    """Lets monitors report against the case the workload is running."""

    def __init__(self, ctx):
        self.ctx = ctx
        self.current_case = None

    def set_case(self, case):
        self.current_case = case

    def report(self, kind, detail, dedup=None, **extra):
        self.ctx.violation(kind, self.current_case, detail, dedup=dedup,
                           **extra)
