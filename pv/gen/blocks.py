"""Description blocks: lots, aliquot chains, lot divisions, ALL, prose.

By construction no block contains a Twp/Rge look-alike, the letters 'sec'
or '§', 'T<digit>' / 'R<digit>', 'P.M.' / 'Meridian'; none starts or ends
with a separator or with of|in|the|and|all (cleanup_desc strips those and the
property says "verbatim"). ``acceptable_block`` re-checks this with its own
regexes; generators discard (and count) what it rejects.
"""

import re

# ---------------------------------------------------------------------------
# Aliquot components and their documented spellings (C07 uses the full table;
# blocks use a handful).

HALVES = ('N', 'S', 'E', 'W')
QUARTERS = ('NE', 'NW', 'SE', 'SW')
COMPONENTS = HALVES + QUARTERS

_DIRWORD = {'N': 'North', 'S': 'South', 'E': 'East', 'W': 'West'}


def canonical_component(c):
    return f"{c}½" if c in HALVES else f"{c}¼"


def canonical_chain(chain):
    return ''.join(canonical_component(c) for c in chain)


def component_spellings(c):
    """Documented spellings of one component -> list of (text, tag)."""
    out = []
    if c in HALVES:
        w = _DIRWORD[c]
        out += [
            (f"{c}½", 'sym'), (f"{c}/2", 'slash'), (f"{c}2", 'bare'),
            (f"{c} 1/2", 'frac-sp'), (f"{c}1/2", 'frac'),
            (f"{c}. 1/2", 'dot-frac'),
            (f"{w} Half", 'word'), (f"{w} One Half", 'word-one'),
            (f"{w} 1/2", 'word-frac'), (f"{w}½", 'word-sym'),
            (f"{c.lower()}/2", 'lower-slash'),
            (f"{w.lower()} half", 'lower-word'),
            (f"{c} 2", 'bare-sp'), (f"{c} /2", 'slash-sp'),
            (f"{c} / 2", 'slash-sp2'),
        ]
        if c in ('N', 'S'):
            out += [(f"{c}o. Half", 'abbr-word'), (f"{c}o. 1/2", 'abbr-frac')]
    else:
        a, b = c
        wa, wb = _DIRWORD[a], _DIRWORD[b]
        out += [
            (f"{c}¼", 'sym'), (f"{c}/4", 'slash'), (f"{c}4", 'bare'),
            (f"{c} 1/4", 'frac-sp'), (f"{c}1/4", 'frac'),
            (f"{a}.{b}. 1/4", 'dot-frac'),
            (f"{wa}{wb.lower()} Quarter", 'word'),
            (f"{wa} {wb} Quarter", 'word-sp'),
            (f"{wa} {wb} One Quarter", 'word-one'),
            (f"{wa}-{wb} Quarter", 'word-dash'),
            (f"{wa}{wb.lower()} 1/4", 'word-frac'),
            (f"{wa}{wb.lower()}¼", 'word-sym'),
            (f"{c.lower()}/4", 'lower-slash'),
            (f"{wa.lower()}{wb.lower()} quarter", 'lower-word'),
            (f"{c} 4", 'bare-sp'), (f"{c} /4", 'slash-sp'),
            (f"{c} / 4", 'slash-sp2'),
        ]
    return out


# Joiners between two components: (text, needs_left_to_end_in_digit_or_symbol)
JOINERS = [('', True), (' ', False), (' of ', False), (' of the ', False)]


def gen_chain(rng, maxlen=3):
    n = rng.choice([1, 1, 2, 2, 2, 3, 3, 4][:max(1, min(8, maxlen * 2 + 1))])
    n = min(n, maxlen)
    return [rng.choice(COMPONENTS) for _ in range(n)]


def render_chain_simple(rng, chain):
    """A chain in one of the plain spellings (for description blocks)."""
    style = rng.choice(['slash', 'slash', 'sym', 'frac-sp'])
    parts = []
    for c in chain:
        sp = dict((tag, txt) for txt, tag in component_spellings(c))
        parts.append(sp[style])
    joiner = '' if style in ('slash', 'sym') else ' '
    if style == 'slash' and rng.random() < 0.2:
        joiner = ' of the '
    return joiner.join(parts)


# ---------------------------------------------------------------------------
# Lots

def gen_lot_items(rng, maxitems=3, maxnum=40):
    """List of items: int | (a, b) ascending range."""
    items = []
    for _ in range(rng.randint(1, maxitems)):
        if rng.random() < 0.3:
            a = rng.randint(1, maxnum - 3)
            items.append((a, a + rng.randint(1, 3)))
        else:
            items.append(rng.randint(1, maxnum))
    return items


def render_lots(rng, items, acreage=False):
    word = 'Lot' if (len(items) == 1 and isinstance(items[0], int)) else 'Lots'
    out = []
    for it in items:
        if isinstance(it, tuple):
            out.append(f"{it[0]}{rng.choice([' - ', '-', ' through ', ' thru '])}{it[1]}")
        else:
            s = str(it)
            if acreage:
                ac = f"{rng.randint(1, 60)}.{rng.randint(0, 99):02d}"
                s += rng.choice([f"({ac})", f" ({ac})", f" [{ac}]"])
            out.append(s)
    if len(out) == 1:
        body = out[0]
    elif len(out) == 2:
        body = f"{out[0]}{rng.choice([', ', ' and ', ' & '])}{out[1]}"
    else:
        body = ', '.join(out[:-1]) + rng.choice([', ', ' and ', ', and ']) + out[-1]
    return f"{word} {body}"


# ---------------------------------------------------------------------------
# Prose

PROSE_WORDS = [
    'that', 'part', 'lying', 'above', 'river', 'bank', 'strip', 'land',
    'feet', 'wide', 'along', 'highway', 'tract', 'parcel', 'being', 'more',
    'fully', 'described', 'deed', 'recorded', 'book', 'page', 'county',
    'records', 'beginning', 'point', 'thence', 'running', 'boundary',
    'fence', 'road', 'creek', 'acres', 'containing', 'approximately',
    'portion', 'remainder', 'railroad', 'right-of-way', 'homestead',
    'meadow', 'canal', 'ditch', 'bluff', 'ridge', 'pasture', 'orchard',
    # ordinary words that END in a connective the parser treats specially
    # (of / in / said / within / and / the) -- never the connective itself
    'drain', 'basin', 'margin', 'cabin', 'thereof', 'aforesaid', 'wherein',
    'highland', 'island', 'lathe', 'ravine', 'plain',
]
# Words a block may not begin/end with (cleanup_desc strips them at the end;
# kept away from the start too so blocks read naturally).
EDGE_FORBIDDEN = {'of', 'in', 'the', 'and', 'all'}

CANNED_PROSE = [
    'That part lying above the river',
    'That part lying north of the county drain',
    'the accretions and appurtenances thereof',
    'All that part of the drainage basin',
    'A strip of land 100 feet wide',
    'the remainder of the homestead parcel',
    'Beginning at a point on the fence, thence running along the road',
    'approximately 40 acres along the creek',
    'That portion described in Book 12, Page 345 of the county records',
    # 'section' inside an ordinary word, a number after it
    'Beginning at the intersection 50 feet north of the fence',
    'the bisect 12 rods wide',
    # words that merely begin like 'Section'
    'Second Addition, Lot 4', 'the Secondary channel and its banks',
    'Sector 7 of the old survey',
]


def gen_prose(rng):
    if rng.random() < 0.4:
        return rng.choice(CANNED_PROSE)
    n = rng.randint(2, 7)
    words = [rng.choice(PROSE_WORDS) for _ in range(n)]
    if rng.random() < 0.5:
        words[0] = words[0].capitalize()
    if rng.random() < 0.3 and n > 3:
        i = rng.randint(1, n - 2)
        words[i] = words[i] + ','
    return ' '.join(words)


# ---------------------------------------------------------------------------
# Blocks

BLOCK_KINDS = ('aliquot', 'aliquots', 'lots', 'lots+aliquot', 'lot-acres',
               'lotdiv', 'all', 'prose', 'aliquot+prose')


def gen_block(rng, kinds=BLOCK_KINDS):
    """Returns (text, kind). Retries until ``acceptable_block``."""
    for _ in range(50):
        kind = rng.choice(kinds)
        if kind == 'aliquot':
            txt = render_chain_simple(rng, gen_chain(rng))
        elif kind == 'aliquots':
            txt = ', '.join(render_chain_simple(rng, gen_chain(rng))
                            for _ in range(rng.randint(2, 3)))
        elif kind == 'lots':
            txt = render_lots(rng, gen_lot_items(rng))
        elif kind == 'lots+aliquot':
            a = render_lots(rng, gen_lot_items(rng, 2))
            b = render_chain_simple(rng, gen_chain(rng))
            txt = f"{a}, {b}" if rng.random() < 0.5 else f"{b}, {a}"
        elif kind == 'lot-acres':
            txt = ', '.join(
                render_lots(rng, [rng.randint(1, 30)], acreage=True)
                for _ in range(rng.randint(1, 3)))
        elif kind == 'lotdiv':
            h = rng.choice(HALVES)
            txt = f"{h}/2 of Lot {rng.randint(1, 20)}"
        elif kind == 'numlead':
            # ordinary description text that begins with a number
            n = rng.randint(1, 99)
            txt = rng.choice([
                f"{n} acres in the {render_chain_simple(rng, gen_chain(rng, 2))}",
                f"{n}.{rng.randint(0, 99):02d} acres, more or less",
                f"{n} foot strip along the fence",
                f"{n} acres, being {render_lots(rng, gen_lot_items(rng, 2))}"])
        elif kind == 'all':
            txt = 'ALL'
        elif kind == 'prose':
            txt = gen_prose(rng)
        else:
            txt = (f"{render_chain_simple(rng, gen_chain(rng, 2))}, "
                   f"{rng.choice(['less and except', 'including', 'limited to'])} "
                   f"{gen_prose(rng).lower()}")
        if acceptable_block(txt):
            return txt, kind
    return 'NE/4', 'aliquot'


_TWP_LOOKALIKE = re.compile(
    r"\d{1,3}[\s.,\-–—]*(n|s)[a-z]{0,5}[\s.,\-–—;|_~]*(r[a-z]{0,6})?"
    r"[\s.,\-–—]*\d", re.I)
_FORBIDDEN = re.compile(
    r"((?<![a-z])(sections?|sects?|secs?|secions?|secitons?|sectons?|sectns?|secns?)(?![a-z])|§|\bT[\s.\-]*\d|\bR[\s.\-]*\d|P\.?\s*M\.?\b|merid|"
    r"\btownship\b|\btwp|\brange\b|\brge)", re.I)
_SEP_EDGE = ",;:-–—\t\n ."


def acceptable_block(txt):
    """The precondition of C01 ("blocks contain no Twp/Rge or section
    reference") and of "verbatim", judged by the harness' own regexes."""
    if not txt or txt[0] in _SEP_EDGE or txt[-1] in _SEP_EDGE:
        return False
    if _FORBIDDEN.search(txt) or _TWP_LOOKALIKE.search(txt):
        return False
    words = re.findall(r"[A-Za-z]+", txt)
    if words and (words[0].lower() in EDGE_FORBIDDEN
                  or words[-1].lower() in EDGE_FORBIDDEN):
        # 'ALL' alone is a documented block; allowed.
        if txt != 'ALL':
            return False
    return True
