"""Hostile text: PLSS token soup, damaged descriptions, unicode/char soup."""

import re

from . import plss as G

VOCAB = [
    # Twp/Rge, whole and in fragments
    'T154N-R97W', 'T1S-R2E', 'Township 7 South, Range 9 East', '154N-97W',
    'T154-R97', 'T154N', 'R97W', '97W', 'Twp. 8 N., Rge. 3 W.', 'T-5-N-R-6-E',
    't12nr3w', 'T2N-R2W', 'Township', 'Range', 'Twp', 'Rge.', 'T', 'R',
    'T154N-R97', 'T154-R97W', '154-97', 'TIS4N-R97W', 'T1O N-R9 W',
    # OCR artefacts in number position, translatable or not
    'T15|N-R97W', 'T15oN-R97W', 'TlS4N-RIOOW', 'T1]4N-R9iW',
    'Township 15o North, Range 9I West', 'T|5|N-R||W', 'TSSN-ROOW',
    # sections
    'Sec', 'Section', 'Sec.', 'Sect', '§', 'Sec 14', 'Sec 14:', 'Sec 1 - 3',
    'Sec 1 - 3:', 'Section 100', 'Sec 5:', 'Secs 4 and 9', 'Sections 7, 8 & 10:',
    '§ 12', '§12:', 'Sect. 8', 'Sec 36', 'Sec 01', 'Sec 0', 'Sec 9 - 7',
    'Section 14 and Section 15', 'Sec 3 through Sec 5',
    # punctuation / connectors
    ':', ',', ';', '.', '-', '–', '—', '/', '&', 'of', 'the', 'in', 'and',
    'all of', 'within', 'said', 'through', 'thru', 'to', 'that part of',
    'lying within', 'lying in',
    # blocks
    'NE/4', 'N/2', 'N½', 'NE¼', 'N2', 'NE', 'E2NE', 'N 1/2', 'North Half',
    'Northeast Quarter', 'ALL', 'Lot 1', 'Lots 1 - 3', 'Lots 1, 2 and 5',
    'Lot 4(38.12)', 'Lot 5 [40.00]', 'N/2 of Lot 1', 'L1', 'Lt. 2',
    '(40.00)', '[39.5]', '(', ')', '½', '¼', '1/4', '4', '2', '12', '100',
    '1000', 'N', 'W', 'S', 'E',
    # spelled-out and odd aliquot / lot spellings
    'Northeast', 'North East', 'South-West', 'Southwest', 'northwest',
    'Southeast Quarter', 'South Half', 'East Half', 'W½', 'E/2', 'S 1/2',
    'West Half of the', 'N/2 of the', 'Quarter', 'Half', 'NE Quarter', 'N.E.',
    'n e', 'SW1/4', 'Southwest 1/4', 'E/2W/2', 'N/2NE/4NE/4', 'NE/4NE/4',
    'Lots 1 thru 4', 'Lt 3', 'L. 4', 'Lts 1-3', 'L1 - L3', 'Lot 2 and 3',
    # warnings
    'less and except', 'wellbore', 'insofar as', 'including', 'limited to',
    'from the surface to the base of', 'depths', 'the Johnston #1 well',
    # meridian
    'P.M.', '5th P.M.', 'Fifth Principal Meridian', 'PM', 'Meridian',
    # placeholders / junk
    'XX', 'XXXz', '___z', 'foo', 'x', 'ZQXJV',
]

JOINERS = [' ', ' ', ' ', ' ', '', ', ', '\n', ': ', '; ', ' - ', '\n\n']

UNICODE_BITS = list(
    "TRSNEWtrsnew0123456789 .,:;-–—/\n\t()[]§½¼&'\"°|_~") + [
    'Sec', 'Section', 'Township', 'Range', 'Lot', 'Lots', 'and', 'thru', 'of',
    'the', 'ALL', 'P.M.', ' ', '‏', '１５４', 'é', 'Ⅳ', '٣', '\x00', '\r',
    '\x0b', '﻿', '𝟙', 'North', 'West', 'Half', 'Quarter', 'NE/4', 'N/2',
    'T154N-R97W', 'Sec 14:', 'Twp.', 'Rge.', ' ', ' ', '́',
    '²', '①', '۱۲', 'Ｔ', 'ß', 'İ', 'ı', ' ', '\x1f',
]

SPECIALS = ['', ' ', '\n', '\t', ':', 'Sec', '§', 'T', 'T154N-R97W',
            'T154N-R97W Section NE/4', 'Section of T154N-R97W',
            'NE/4 of Section, T154N-R97W', 'Sec 14: NE/4', 'T154N-R97W §',
            'T154N-R97W Sec 14 NE/4', 'Sec 14 NE/4 T154N-R97W', '0', 'None']


def token_soup(rng, maxtok=14):
    n = rng.randint(1, maxtok)
    out = []
    for i in range(n):
        out.append(rng.choice(VOCAB))
        if i < n - 1:
            out.append(rng.choice(JOINERS))
    return ''.join(out)


def char_soup(rng, maxlen=40):
    return ''.join(rng.choice(UNICODE_BITS) + rng.choice(['', ' ', ''])
                   for _ in range(rng.randint(0, maxlen)))


_TOKEN = re.compile(r'\S+|\s+')


def damage(rng, text):
    """One damage operator applied to a well-formed description."""
    toks = _TOKEN.findall(text)
    words = [i for i, t in enumerate(toks) if not t.isspace()]
    op = rng.choice(['delete', 'dup', 'transpose', 'truncate', 'nocolon',
                     'shuffle-lines', 'delete2', 'drop-twprge-dir', 'head'])
    if not words:
        return text, 'noop'
    if op == 'delete':
        del toks[rng.choice(words)]
    elif op == 'delete2':
        for _ in range(2):
            words = [i for i, t in enumerate(toks) if not t.isspace()]
            if words:
                del toks[rng.choice(words)]
    elif op == 'dup':
        i = rng.choice(words)
        toks.insert(i, toks[i] + ' ')
    elif op == 'transpose' and len(words) > 1:
        a, b = rng.sample(words, 2)
        toks[a], toks[b] = toks[b], toks[a]
    elif op == 'truncate':
        return text[:rng.randint(0, len(text))], op
    elif op == 'head':
        return text[rng.randint(0, len(text)):], op
    elif op == 'nocolon':
        return text.replace(':', ''), op
    elif op == 'shuffle-lines':
        lines = text.split('\n')
        rng.shuffle(lines)
        return '\n'.join(lines), op
    elif op == 'drop-twprge-dir':
        return re.sub(r'(\d)[NSEWnsew]\b', r'\1', text, count=rng.randint(1, 3)), op
    return ''.join(toks), op


def gen_text(rng):
    """(text, family) over all hostile families."""
    r = rng.random()
    if r < 0.40:
        return token_soup(rng), 'soup'
    if r < 0.75:
        case = G.gen_case(rng, max_groups=2, max_secs=2)
        txt, op = damage(rng, case['text'])
        if rng.random() < 0.3:
            txt, op2 = damage(rng, txt)
            op = f"{op}+{op2}"
        return txt, f"damaged:{op}"
    if r < 0.90:
        return char_soup(rng), 'chars'
    if r < 0.95:
        return rng.choice(SPECIALS), 'special'
    case = G.gen_case(rng, max_groups=2, max_secs=2)
    return case['text'], 'wellformed'


_TWP_LIKE = re.compile(r'\d\s*[NnSs]|T\s*\d|R\s*\d|[Tt]ownship|[Tt]wp', re.A)
_SEC_LIKE = re.compile(r'[Ss]ec|§')


def looks_plss(text):
    return bool(_TWP_LIKE.search(text)) and bool(_SEC_LIKE.search(text))
