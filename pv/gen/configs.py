"""Valid configurations of the 16 settings, and the channels to pass them."""

BOOL_SETTINGS = ('parse_qq', 'clean_qq', 'suppress_lot_divs',
                 'sec_colon_required', 'sec_colon_cautious', 'ocr_scrub',
                 'segment', 'break_halves', 'sec_within')
# wait_to_parse is handled separately (it changes which call parses).
ALL_SETTINGS = ('default_ns', 'default_ew', 'layout', 'wait_to_parse',
                'parse_qq', 'clean_qq', 'sec_colon_required',
                'sec_colon_cautious', 'suppress_lot_divs', 'ocr_scrub',
                'segment', 'qq_depth', 'qq_depth_min', 'qq_depth_max',
                'break_halves', 'sec_within')
LAYOUTS = ('TRS_desc', 'desc_STR', 'S_desc_TR', 'TR_desc_S', 'copy_all')
TRACT_SETTINGS = ('default_ns', 'default_ew', 'parse_qq', 'clean_qq',
                  'suppress_lot_divs', 'ocr_scrub', 'qq_depth',
                  'qq_depth_min', 'qq_depth_max', 'break_halves')
PLSS_PARSE_KEYWORDS = ('layout', 'default_ns', 'default_ew', 'parse_qq',
                       'clean_qq', 'sec_colon_cautious', 'sec_colon_required',
                       'segment', 'ocr_scrub', 'sec_within', 'qq_depth_min',
                       'qq_depth_max', 'qq_depth', 'break_halves')
TRACT_PARSE_KEYWORDS = ('clean_qq', 'suppress_lot_divs', 'qq_depth_min',
                        'qq_depth_max', 'qq_depth', 'break_halves')


def gen_settings(rng, density=0.25, allow_layout=True, max_depth=3):
    """A random valid assignment {setting: value} (unset settings absent)."""
    st = {}
    for b in BOOL_SETTINGS:
        if rng.random() < density:
            st[b] = rng.random() < 0.75
    if rng.random() < density:
        st['default_ns'] = rng.choice('ns')
    if rng.random() < density:
        st['default_ew'] = rng.choice('ew')
    if allow_layout and rng.random() < density:
        st['layout'] = rng.choice(LAYOUTS)
    r = rng.random()
    if r < density:
        st['qq_depth'] = rng.randint(1, max_depth)
    elif r < 2 * density:
        mn = rng.randint(1, max_depth)
        st['qq_depth_min'] = mn
        if rng.random() < 0.5:
            st['qq_depth_max'] = rng.randint(mn, max_depth + 1)
    elif r < 2.5 * density:
        # max alone must still be >= the default min of 2
        st['qq_depth_max'] = rng.randint(2, max_depth + 1)
    return st


def to_text(st, rng=None):
    """Config text for an assignment (order and spelling varied by rng)."""
    parts = []
    for k, v in st.items():
        if k in BOOL_SETTINGS or k == 'wait_to_parse':
            if v is True:
                parts.append(k if (rng is None or rng.random() < 0.7)
                             else f"{k}.True")
            else:
                parts.append(f"{k}.False" if (rng is None or rng.random() < 0.7)
                             else f"{k}=False")
        elif k in ('default_ns', 'default_ew'):
            if rng is not None and rng.random() < 0.3:
                parts.append(f"{k}.{v}")
            else:
                parts.append(v)
        elif k == 'layout':
            if rng is not None and rng.random() < 0.3:
                parts.append(f"layout.{v}")
            else:
                parts.append(v)
        else:
            parts.append(f"{k}.{v}")
    if rng is not None:
        rng.shuffle(parts)
        sep = rng.choice([',', ', ', ';', ' , '])
    else:
        sep = ','
    return sep.join(parts)


def tract_subset(st):
    return {k: v for k, v in st.items() if k in TRACT_SETTINGS}


def plss_parse_kwargs(st):
    return {k: v for k, v in st.items() if k in PLSS_PARSE_KEYWORDS}


def tract_parse_kwargs(st):
    return {k: v for k, v in st.items() if k in TRACT_PARSE_KEYWORDS}
