"""Abstract PLSS descriptions and their documented renderings (C01 space).

An abstract description is
    [ ((t, ns, r, ew), [ (nums, kind, block), ... ]), ... ]
with ``kind`` in {None (single), 'and', 'thru'}. ``render`` produces the text
in one of the four documented layouts and the expected tract list
[(trs, block), ...] in reading order.
"""

from . import blocks as B

LAYOUTS = ('TRS_desc', 'TR_desc_S', 'desc_STR', 'S_desc_TR')

_NSW = {'n': 'North', 's': 'South'}
_EWW = {'e': 'East', 'w': 'West'}

TWPRGE_SPELLINGS = ('compact', 'words', 'abbr', 'dashed', 'lower', 'bare')


def render_twprge(tr, spelling, zeros=False):
    t, ns, r, ew = tr
    if zeros:
        # leading zeros (never turning range 2 into something else)
        t = f"{t:03d}" if t >= 10 else f"{t:02d}"
        r = f"{r:03d}" if r >= 10 else f"{r:02d}"
        if spelling == 'bare' and int(r) == 2:
            spelling = 'compact'
        tr = (t, ns, r, ew)
    NS, EW = ns.upper(), ew.upper()
    if spelling == 'compact':
        return f"T{t}{NS}-R{r}{EW}"
    if spelling == 'words':
        return f"Township {t} {_NSW[ns]}, Range {r} {_EWW[ew]}"
    if spelling == 'abbr':
        return f"Twp. {t} {NS}., Rge. {r} {EW}."
    if spelling == 'dashed':
        return f"T-{t}-{NS}-R-{r}-{EW}"
    if spelling == 'lower':
        return f"t{t}{ns}r{r}{ew}"
    if spelling == 'bare':
        if r == 2 or r == '02':
            # Range '2' is only documented with an explicit 'R'.
            return f"T{t}{NS}-R{r}{EW}"
        return f"{t}{NS}-{r}{EW}"
    raise ValueError(spelling)


def short_twprge(tr):
    t, ns, r, ew = tr
    return f"{t}{ns}{r}{ew}"


def gen_num(rng, wide=True):
    if wide:
        return rng.choice([rng.randint(1, 9), rng.randint(10, 99),
                           rng.randint(100, 999)])
    return rng.choice([rng.randint(1, 9), rng.randint(10, 99),
                       rng.randint(100, 180)])


def gen_twprge(rng, wide=True):
    return (gen_num(rng, wide), rng.choice('ns'), gen_num(rng, wide),
            rng.choice('ew'))


SEC_WORDS = ('Section', 'Sec', 'Sec.', 'Sect', 'Sect.', '§')
THRU_WORDS = (' - ', '-', ' through ', ' thru ', ' to ')
AND_WORDS = (' and ', ' & ')


def gen_sec_group(rng, maxsec=99):
    kind = rng.choice([None, None, 'and', 'thru'])
    if rng.random() < 0.04:
        # a written-out list, now and then a long one: 'Sections 12, 3, 7
        # and 30' ... 'Secs 1, 2, 3, ..., 31 & 32'
        n = rng.choice([3, 4, 6, 12, 26, 27, 32])
        return rng.sample(range(1, maxsec + 1), min(n, maxsec)), 'list'
    if kind is None:
        return [rng.randint(1, maxsec)], None
    if kind == 'and':
        a, b = rng.sample(range(1, maxsec + 1), 2)
        return [a, b], 'and'
    a = rng.randint(1, maxsec - 4)
    b = rng.randint(a + 1, min(maxsec, a + 4))
    return list(range(a, b + 1)), 'thru'


def render_sec_group(rng, nums, kind, word=None):
    w = word or rng.choice(SEC_WORDS)
    sp = '' if (w == '§' and rng.random() < 0.5) else ' '
    if rng.random() < 0.08:
        nums = [f"{n:02d}" for n in nums]      # '05' style
    if kind is None:
        return f"{w}{sp}{nums[0]}"
    pl = ''
    if w in ('Section', 'Sec', 'Sect') and rng.random() < 0.6:
        pl = 's'
    elif w in ('Sec.', 'Sect.') and rng.random() < 0.5:
        # the plural of the abbreviation keeps its period: 'Secs. 14 and 15'
        w = w[:-1] + 's.'
    # The library reads these words without regard to case; every tenth
    # word comes capitalised or in upper case, the keyword likewise.
    def recase(x):
        r = rng.random()
        return x.upper() if r < 0.05 else x.title() if r < 0.10 else x
    if kind == 'and':
        return f"{w}{pl}{sp}{nums[0]}{recase(rng.choice(AND_WORDS))}{nums[1]}"
    if kind == 'list':
        last = rng.choice([', ', ' and ', ' & ', ', and '])
        return (f"{w}{pl}{sp}" + ', '.join(str(n) for n in nums[:-1])
                + f"{recase(last)}{nums[-1]}")
    return f"{w}{pl}{sp}{nums[0]}{recase(rng.choice(THRU_WORDS))}{nums[-1]}"


def gen_abstract(rng, max_groups=3, max_secs=3, block_kinds=B.BLOCK_KINDS,
                 wide=True, maxsec=99):
    groups, used = [], set()
    for _ in range(rng.randint(1, max_groups)):
        while True:
            tr = gen_twprge(rng, wide)
            if used and rng.random() < 0.15:
                # A Twp/Rge whose spelling contains an earlier one's
                # ('82S-7W' vs '2S-7W'): hostile to text-based substitution.
                t0, ns0, r0, ew0 = rng.choice(sorted(used))
                t1 = int(f"{rng.randint(1, 9)}{t0}")
                if t1 <= 999:
                    tr = (t1, ns0, r0, ew0)
            if len(groups) >= 2 and rng.random() < 0.15:
                # A Twp/Rge that re-appears after a different one (A..B..A).
                tr = groups[-2][0]
                break
            if tr not in used:
                used.add(tr)
                break
        secs = []
        for _ in range(rng.randint(1, max_secs)):
            nums, kind = gen_sec_group(rng, maxsec)
            blk, bkind = B.gen_block(rng, block_kinds)
            secs.append((nums, kind, blk, bkind))
        groups.append((tr, secs))
    return groups


def expected_tracts(groups):
    out = []
    for tr, secs in groups:
        short = short_twprge(tr)
        for nums, kind, blk, _ in secs:
            for n in nums:
                out.append([f"{short}{n:02d}", blk])
    return out


class _Builder:
    """Accumulates text and the spans of its structural parts."""

    def __init__(self):
        self.parts = []
        self.pos = 0
        self.spans = []      # (start, end, kind)

    def add(self, text, kind=None):
        if kind is not None and text:
            self.spans.append((self.pos, self.pos + len(text), kind))
        self.parts.append(text)
        self.pos += len(text)

    def text(self):
        return ''.join(self.parts)


def render(rng, groups, layout, choices=None):
    """
    Render in ``layout`` using only documented connectors. Returns
    (text, info) where info records the rendering choices (for the shape
    histogram and for classifiers) and ``info['spans']``: the (start, end,
    kind) spans of every Twp/Rge ('twprge'), section group ('sec') and
    description block ('block') in the text.
    """
    ch = dict(choices or {})
    sep = ch.setdefault('sep', rng.choice([', ', '; ', '\n', ',\n', ';\n']))
    gsep = ch.setdefault('gsep', rng.choice([sep, '\n', '\n\n', '; ']))
    spelling = ch.setdefault('spelling', rng.choice(TWPRGE_SPELLINGS))
    mixed = ch.setdefault('mixed_spelling', rng.random() < 0.3)
    b = _Builder()
    for gi, (tr, secs) in enumerate(groups):
        if gi:
            b.add(gsep)
        sp = rng.choice(TWPRGE_SPELLINGS) if mixed else spelling
        trtxt = render_twprge(tr, sp, zeros=rng.random() < 0.08)

        def entries(sec_first):
            for si, (n, k, blk, _) in enumerate(secs):
                if si:
                    b.add(sep)
                if sec_first:
                    b.add(render_sec_group(rng, n, k), 'sec')
                    b.add(': ')
                    b.add(blk, 'block')
                else:
                    b.add(blk, 'block')
                    b.add(' of ')
                    b.add(render_sec_group(rng, n, k), 'sec')

        if layout == 'TRS_desc':
            b.add(trtxt, 'twprge')
            b.add(rng.choice([' ', ', ', '\n', ': ']))
            entries(True)
        elif layout == 'TR_desc_S':
            b.add(trtxt, 'twprge')
            b.add(rng.choice(['\n', ': ', ' ', ', ']))
            entries(False)
        elif layout == 'desc_STR':
            entries(False)
            b.add(', ')
            b.add(trtxt, 'twprge')
        elif layout == 'S_desc_TR':
            conn = rng.choice([', ', ' of '])
            if secs[-1][2] == 'ALL':
                # 'ALL of T...' is the documented context phrase "all of
                # <Twp/Rge>", read as a continuation -- excluded.
                conn = ', '
            entries(True)
            b.add(conn)
            b.add(trtxt, 'twprge')
        else:
            raise ValueError(layout)
    ch['spans'] = b.spans
    return b.text(), ch


def gen_case(rng, layout=None, **kw):
    """One rendered description with its expectation."""
    layout = layout or rng.choice(LAYOUTS)
    groups = gen_abstract(rng, **kw)
    text, ch = render(rng, groups, layout)
    exp = expected_tracts(groups)
    nsec_groups = sum(len(secs) for _, secs in groups)
    multi = any(k is not None for _, secs in groups for _, k, _, _ in secs)
    shape = {
        'layout': layout,
        'groups': len(groups),
        'sec_groups': nsec_groups,
        'multi': multi,
        'block_kinds': sorted({bk for _, secs in groups for *_, bk in secs}),
        'sep': ch['sep'], 'gsep': ch['gsep'],
        'spelling': 'mixed' if ch['mixed_spelling'] else ch['spelling'],
    }
    return {'text': text, 'layout': layout, 'expected': exp, 'shape': shape,
            'spans': [list(x) for x in ch['spans']]}
