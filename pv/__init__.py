"""pv -- runtime-monitoring framework for the pyTRS properties C01..C20.

Layout (see DESIGN.md section 3):
    runner.py     shard planning, subprocess workers, verdict, evidence
    worker.py     one shard in one fresh interpreter
    common.py     Ctx (event/verdict accumulator), hashing, seeded RNG
    gen/          seeded generators
    monitors/     wrappers / contracts installed on the real pytrs code
    oracles/      reference models (never import pytrs)
    props/cNN.py  per-property workload + deciding oracle
    findings.py   known-findings file handling
"""
