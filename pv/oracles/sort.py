"""Reference model of custom_sort keys (no pytrs import).

Elements are described by plain tuples:
    (uid, twp_num, twp_ns, rge_num, rge_ew, sec_num)
with None for error/undefined components. Each key is applied left to right
as a stable sort; errors/undefined come last (first when reversed).
"""

LEGAL = {
    'i': ('num', None),
    't': ('ns', 'sn', 'num', None),
    'r': ('ew', 'we', 'num', None),
    's': ('num', None),
}


def parse_key(k):
    """(var, method, rev) or raises ValueError for an illegal key."""
    parts = k.strip().lower().replace(' ', '').split('.')
    var = parts[0]
    if var not in LEGAL:
        raise ValueError(k)
    method, rev = None, False
    rest = parts[1:]
    if rest and rest[-1] in ('rev', 'reverse'):
        rev = True
        rest = rest[:-1]
    if len(rest) > 1:
        raise ValueError(k)
    if rest:
        method = rest[0]
    if method not in LEGAL[var]:
        raise ValueError(k)
    return var, method or 'num', rev


def keyval(el, var, method):
    uid, tn, tns, rn, rew, sn = el
    if var == 'i':
        return (0, uid)
    if var == 's':
        return (0, sn) if sn is not None else (1, 0)
    num, d = (tn, tns) if var == 't' else (rn, rew)
    if num is None:
        return (1, 0)
    if method == 'num':
        return (0, num)
    if method == 'ns':
        return (0, -num if d == 'n' else num)
    if method == 'sn':
        return (0, num if d == 'n' else -num)
    if method == 'we':
        return (0, -num if d == 'w' else num)
    if method == 'ew':
        return (0, num if d == 'w' else -num)
    raise ValueError(method)


def model_sort(elements, keys):
    """elements: list of (tag, tuple). Returns the list in model order."""
    out = list(elements)
    for k in keys:
        var, method, rev = parse_key(k)
        out.sort(key=lambda e: keyval(e[1], var, method), reverse=rev)
    return out
