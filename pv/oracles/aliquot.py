"""Geometric reference model of aliquot chains (exact Fraction arithmetic).

A section is the unit square; axis 0 is N(0)..S(1), axis 1 is W(0)..E(1).
A half halves the current rectangle on its axis; a quarter on both. A chain
is written smallest-first ('N½NE¼' = north half OF the NE quarter), so it is
applied right-to-left. With a maximum depth, halvings after the max-th on an
axis are ignored (the property's wording). No pytrs import.
"""

import itertools
import re
from fractions import Fraction as F

HALF = {'N': (0, 0), 'S': (0, 1), 'E': (1, 1), 'W': (1, 0)}
UNIT = ((F(0), F(1)), (F(0), F(1)))
COMPONENTS = ('N', 'S', 'E', 'W', 'NE', 'NW', 'SE', 'SW')

_PIECE_TOKEN = re.compile(r'NE|NW|SE|SW|[NSEW]2')
_CHAIN_TOKEN = re.compile(r'(NE|NW|SE|SW)¼|([NSEW])½|(ALL)')


def halve(rect, letter):
    (y0, y1), (x0, x1) = rect
    ax, side = HALF[letter]
    if ax == 0:
        m = (y0 + y1) / 2
        y0, y1 = (y0, m) if side == 0 else (m, y1)
    else:
        m = (x0 + x1) / 2
        x0, x1 = (x0, m) if side == 0 else (m, x1)
    return ((y0, y1), (x0, x1))


def region(chain, max_depth=None):
    """The rectangle a chain (list of components, as written) describes."""
    rect = UNIT
    count = [0, 0]
    for comp in reversed(chain):
        if comp == 'ALL':
            continue
        for letter in comp:
            ax, _ = HALF[letter]
            if max_depth is not None and count[ax] >= max_depth:
                continue
            count[ax] += 1
            rect = halve(rect, letter)
    return rect


def parse_chain_text(text):
    """'N½NE¼' -> ['N', 'NE']; None if the text is not a clean chain."""
    out, pos = [], 0
    for mo in _CHAIN_TOKEN.finditer(text):
        if mo.start() != pos:
            return None
        pos = mo.end()
        out.append(mo.group(1) or mo.group(2) or mo.group(3))
    if pos != len(text) or not out:
        return None
    if 'ALL' in out and len(out) > 1:
        return None
    return out


def piece_tokens(piece):
    toks = _PIECE_TOKEN.findall(piece)
    if ''.join(toks) != piece or not toks:
        return None
    return toks


def piece_rect(toks):
    rect = UNIT
    for t in reversed(toks):
        for letter in t.rstrip('2'):
            rect = halve(rect, letter)
    return rect


def area(r):
    return (r[0][1] - r[0][0]) * (r[1][1] - r[1][0])


def inside(a, b):
    return (b[0][0] <= a[0][0] and a[0][1] <= b[0][1]
            and b[1][0] <= a[1][0] and a[1][1] <= b[1][1])


def overlap(a, b):
    return (max(a[0][0], b[0][0]) < min(a[0][1], b[0][1])
            and max(a[1][0], b[1][0]) < min(a[1][1], b[1][1]))


def check_pieces(chain, qq_min, qq_max, break_halves, pieces):
    """None if ``pieces`` tile region(chain, qq_max) within the depth rules."""
    if qq_max is not None and qq_max < qq_min:
        return None      # documented as unsupported
    exp = region(chain, qq_max)
    rects = []
    for p in pieces:
        toks = piece_tokens(p) if isinstance(p, str) else None
        if p == 'ALL':
            toks = []           # the whole section, divided zero times
        if toks is None:
            return f"piece {p!r} is not a sequence of NE|NW|SE|SW|N2|S2|E2|W2"
        r = piece_rect(toks)
        rects.append(r)
        if not inside(r, exp):
            return f"piece {p!r} lies outside the described region"
        largest_first = list(reversed(toks))
        if any(t.endswith('2') for t in largest_first[:qq_min]):
            return (f"piece {p!r}: one of its {qq_min} largest components is "
                    f"a half (min depth {qq_min})")
        if len(toks) < qq_min:
            return f"piece {p!r} is shallower than min depth {qq_min}"
        if qq_max is not None and len(toks) > qq_max:
            return f"piece {p!r} is deeper than max depth {qq_max}"
        if break_halves and any(t.endswith('2') for t in toks):
            return f"piece {p!r} contains a half although break_halves is on"
    total = sum(map(area, rects), F(0))
    if total != area(exp):
        return (f"areas add up to {total} of a section, the described region "
                f"is {area(exp)}")
    if len(rects) <= 300:
        for (i, a), (j, b) in itertools.combinations(enumerate(rects), 2):
            if overlap(a, b):
                return f"pieces {pieces[i]!r} and {pieces[j]!r} overlap"
    else:
        # Rasterise on the finest dyadic grid present.
        den = 1
        for r in rects:
            for lo, hi in r:
                den = max(den, lo.denominator, hi.denominator)
        covered = {}
        for r, p in zip(rects, pieces):
            (y0, y1), (x0, x1) = r
            for y in range(int(y0 * den), int(y1 * den)):
                for x in range(int(x0 * den), int(x1 * den)):
                    if (y, x) in covered:
                        return f"pieces {covered[(y, x)]!r} and {p!r} overlap"
                    covered[(y, x)] = p
    return None
