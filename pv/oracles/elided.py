"""Reference model for elided lists of sections / lots (no pytrs import)."""

import re


def expand(items):
    """items: list of int | (a, b). Returns (numbers, has_descending)."""
    out, desc = [], False
    for it in items:
        if isinstance(it, (tuple, list)):
            a, b = it
            if a <= b:
                out.extend(range(a, b + 1))
            else:
                out.extend(range(a, b - 1, -1))
                desc = True
        else:
            out.append(it)
    return out, desc


_NUM = re.compile(r'\d{1,3}')
_ACRE = re.compile(r'\(\d{0,3}\.?\d{0,6}\)|\[\d{0,3}\.?\d{0,6}\]')
_KEYWORD = re.compile(
    r'(sections?|sects?\.?|secs?\.?|secions?|secitons?|sectons?|sectns?|'
    r'secns?|§|lots?|lts?\.?|l\.?)', re.I)
_THRU = re.compile(r'^([\-–—]|through\.?|thru\.?|to)$', re.I)
_AND = re.compile(r'^(,|;|and|&|,\s*and|;\s*and|,\s*&)$', re.I)


def read_list(text):
    """
    Own reading of a section/lot list text: returns items or None when the
    text has anything but exactly one plain connective between consecutive
    numbers (then the contract does not judge it).
    """
    text = _ACRE.sub(' ', text)
    text = text.rstrip().rstrip(':').rstrip()
    nums = list(_NUM.finditer(text))
    if not nums:
        return None
    # Head must be just a keyword.
    head = text[:nums[0].start()].strip()
    head = head.rstrip(':*.-–— ')
    if head and not _KEYWORD.fullmatch(head):
        return None
    if text[nums[-1].end():].strip():
        return None
    items, pending = [], None
    cur = int(nums[0].group())
    conns = []
    for a, b in zip(nums, nums[1:]):
        between = text[a.end():b.start()]
        between = _KEYWORD.sub(' ', between).strip()
        between = re.sub(r'\s+', ' ', between)
        if _THRU.fullmatch(between):
            conns.append('thru')
        elif _AND.fullmatch(between):
            conns.append('and')
        else:
            return None
    vals = [int(n.group()) for n in nums]
    i = 0
    while i < len(vals):
        if i < len(conns) and conns[i] == 'thru':
            # a thru b (a chain 'a thru b thru c' is not judged)
            if i + 1 < len(conns) and conns[i + 1] == 'thru':
                return None
            if vals[i] == vals[i + 1]:
                return None
            items.append((vals[i], vals[i + 1]))
            i += 2
        else:
            items.append(vals[i])
            i += 1
    return items
