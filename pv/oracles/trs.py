"""Reference grammar of the pyTRS standard Twp/Rge/Sec form (no pytrs import).

Digits are the ASCII digits only: a full-width or Arabic-Indic digit is not
part of the standard form (and two strings that differ only in the script of
a digit would otherwise both claim the same township number).
"""

import re

ERR_TWP = ERR_RGE = 'XXXz'
UNDEF_TWP = UNDEF_RGE = '___z'
ERR_SEC = 'XX'
UNDEF_SEC = '__'
ERR_TRS = 'XXXzXXXzXX'
UNDEF_TRS = '___z___z__'

_TWP = r'(?P<twp>(?P<twp_num>[0-9]{1,3})(?P<ns>[ns])|XXXz|___z)'
_RGE = r'(?P<rge>(?P<rge_num>[0-9]{1,3})(?P<ew>[ew])|XXXz|___z)'
_SEC = r'(?P<sec>[0-9]{2}|XX|__)'
STD = re.compile(_TWP + _RGE + _SEC)
# Same, direction letters in either case (documented case-insensitivity).
STD_CI = re.compile(
    r'(?P<twp>(?P<twp_num>[0-9]{1,3})(?P<ns>[nsNS])|XXXz|___z)'
    r'(?P<rge>(?P<rge_num>[0-9]{1,3})(?P<ew>[ewEW])|XXXz|___z)'
    r'(?P<sec>[0-9]{2}|XX|__)')
# Twp+Rge with the section left out (accepted by design -> error section).
NO_SEC_CI = re.compile(
    r'(?P<twp>(?P<twp_num>[0-9]{1,3})(?P<ns>[nsNS])|XXXz|___z)'
    r'(?P<rge>(?P<rge_num>[0-9]{1,3})(?P<ew>[ewEW])|XXXz|___z)')

# What a tract produced from a description may carry: standard or error
# placeholders, never 'undefined'.
PARSED = re.compile(
    r'([0-9]{1,3}[ns]|XXXz)([0-9]{1,3}[ew]|XXXz)([0-9]{2}|XX)')


def decompose(trs):
    """
    Expected attribute values of a string that is exactly in standard form
    (placeholders included); None if it is not.
    """
    mo = STD.fullmatch(trs)
    if mo is None:
        return None
    d = {
        'trs': trs,
        'twp': mo['twp'], 'rge': mo['rge'], 'sec': mo['sec'],
        'twprge': mo['twp'] + mo['rge'],
        'twp_num': None, 'twp_ns': None, 'twp_undef': False,
        'rge_num': None, 'rge_ew': None, 'rge_undef': False,
        'sec_num': None, 'sec_undef': False,
    }
    if mo['twp_num'] is not None:
        d['twp_num'] = int(mo['twp_num'])
        d['twp_ns'] = mo['ns']
    elif mo['twp'] == UNDEF_TWP:
        d['twp_undef'] = True
    if mo['rge_num'] is not None:
        d['rge_num'] = int(mo['rge_num'])
        d['rge_ew'] = mo['ew']
    elif mo['rge'] == UNDEF_RGE:
        d['rge_undef'] = True
    if mo['sec'] == UNDEF_SEC:
        d['sec_undef'] = True
    elif mo['sec'] != ERR_SEC:
        d['sec_num'] = int(mo['sec'])
    d['twp_err'] = mo['twp'] == ERR_TWP
    d['rge_err'] = mo['rge'] == ERR_RGE
    d['sec_err'] = mo['sec'] == ERR_SEC
    return d


def has_error_component(trs):
    d = decompose(trs)
    return d is not None and (d['twp_err'] or d['rge_err'] or d['sec_err'])


def canonical_of_case_variant(s):
    """If ``s`` is a standard string up to the case of its direction
    letters, the canonical (lower-cased directions) string; else None."""
    mo = STD_CI.fullmatch(s)
    if mo is None:
        return None
    twp = mo['twp'] if mo['twp_num'] is None else mo['twp'].lower()
    rge = mo['rge'] if mo['rge_num'] is None else mo['rge'].lower()
    return f"{twp}{rge}{mo['sec']}"


def allowed_results_for(s):
    """
    The set of acceptable ``.trs`` results for wrapping the string ``s``,
    or the marker 'ANY_ERROR' meaning: any well-formed string having at
    least one error component.

      * exactly standard          -> {s}
      * standard up to letter case -> {canonical} or ANY_ERROR
      * anything else             -> ANY_ERROR
    """
    if s in ('', None):
        return {UNDEF_TRS}, False
    if not isinstance(s, str):
        s = str(s)
    if STD.fullmatch(s):
        return {s}, False
    c = canonical_of_case_variant(s)
    if c is not None:
        return {c}, True
    return set(), True


def check_wrap(s, got):
    """None if ``got`` is an acceptable result of wrapping ``s``; else why."""
    allowed, or_error = allowed_results_for(s)
    if got in allowed:
        return None
    if or_error and has_error_component(got):
        return None
    if or_error:
        return (f"{s!r} is not in the standard form but was read as "
                f"{got!r}, which has no error component")
    return f"{s!r} is in the standard form but was read as {got!r}"
