"""Known-findings file: committed, read-only at run time.

/verif/known_findings.json holds a list of entries. Two kinds:

  {"status": "known", "property": "C06", "id": "<mechanism id>",
   "what": "<what fails>", "line": "known: property=C06 <id> <what>"}
      A genuine defect recorded rather than repaired. ``id`` names a
      classifier in the property's module (``classify(v)`` returns it for a
      violation produced by that mechanism). Only violations whose
      classifier id is listed here are reported as KNOWN-FINDING; anything
      else of the same property is a VIOLATION.

  {"status": "fixed", "property": "C03", "commit": "<sha>",
   "what": "<what failed>", "line": "fixed: property=C03 <sha> <what>"}
      A genuine defect repaired by a `fix:` commit in /repo. Suppresses
      nothing.
"""

import json
import os

VERIF = os.path.dirname(os.path.dirname(os.path.abspath(__file__)))
PATH = os.path.join(VERIF, 'known_findings.json')


def load_all():
    if not os.path.exists(PATH):
        return []
    with open(PATH) as f:
        return json.load(f)['entries']


def load_known(prop):
    """{finding id: entry} for the listed, unrepaired findings of ``prop``."""
    return {e['id']: e for e in load_all()
            if e.get('status') == 'known' and e.get('property') == prop}
