"""C17 -- sorting is a stable multi-key permutation with errors last."""

import warnings

import icontract

from ..oracles import sort as S

PROP = 'C17'
RULE = (
    "Lists of 0-12 Tract or TRS elements with valid, error, undefined and "
    "partially undefined Twp/Rge/Sec, many ties, mixed N/S and E/W, number "
    "0, in shuffled order (Tracts created in random order so that creation "
    "order differs from list order); key strings of 1-3 keys x sub-method "
    "(num, ns, sn, ew, we) x optional .rev/.reverse with random spacing and "
    "case, through TractList.custom_sort, TRSList.custom_sort and "
    "PLSSDesc.sort_tracts; in 40% of the cases 1-3 elements are then "
    "re-assigned in place (.trs = ...) and the list is sorted by the same "
    "key again, judged from the order it was left in. Oracle: stable left-to-right model "
    "(pv/oracles/sort.py) with errors/undefined last (first when reversed), "
    "compared by element identity; an icontract snapshot/ensure contract on "
    "_TRSTractList.custom_sort asserts on every sort that the result is a "
    "permutation of the same objects. Illegal keys (unknown variable, "
    "direction that does not apply) must raise ValueError. Non-trivial: >= 3 "
    "elements and the model order differs from the input order. Distinct by "
    "(elements, key string)."
)
ASSUMPTIONS = [
    "Junk after a valid key ('t.nsx') only warns by design and is not in "
    "the rejection set; 0n and 0s tie.",
]
MIN_NONTRIVIAL = {'quick': 8000, 'thorough': 200000}
REQUIRED_MONITORS = ['boundary:custom_sort', 'boundary:sort_tracts',
                     'contract:custom_sort', 'illegal-key',
                     'resort-after-element-edit']

KEYS = ['i', 't', 't.num', 't.ns', 't.sn', 'r', 'r.num', 'r.ew', 'r.we', 's',
        's.num', 'i.num']
ILLEGAL = ['x', 'q.num', 's.ns', 't.ew', 'r.sn', 'i.ns', 'x.ns', 'z', 't.we',
           'r.ns', 's.ew', 'i.we', 'y.rev', 'q', 'a.num', 's.sn', 't.ns,x',
           'x,t.ns', 's, r.sn', 'u.ew']


def plan(tier, seed):
    if tier == 'quick':
        return [{'family': 'sort', 'n': 2500, 'i': i} for i in range(8)]
    return [{'family': 'sort', 'n': 25000, 'i': i} for i in range(24)]


def rand_trs(rng):
    wild = rng.random() < 0.35
    twp = rng.choice([f"{rng.randint(0, 12)}{rng.choice('ns')}",
                      f"{rng.randint(100, 999)}{rng.choice('ns')}", 'XXXz',
                      '___z']) if wild else \
        f"{rng.randint(1, 4)}{rng.choice('ns')}"
    rge = rng.choice([f"{rng.randint(0, 12)}{rng.choice('ew')}",
                      f"{rng.randint(100, 999)}{rng.choice('ew')}", 'XXXz',
                      '___z']) if wild else \
        f"{rng.randint(1, 4)}{rng.choice('ew')}"
    sec = rng.choice([f"{rng.randint(0, 36):02d}", f"{rng.randint(37, 99):02d}",
                      'XX', '__']) if wild \
        else f"{rng.randint(1, 6):02d}"
    return twp + rge + sec


def describe(el, pytrs):
    uid = el._Tract__uid if isinstance(el, pytrs.Tract) else 0
    return (uid, el.twp_num, el.twp_ns, el.rge_num, el.rge_ew, el.sec_num)


def spell_key(rng, ks):
    sep = rng.choice([',', ', ', ' , ', ' ,'])
    s = sep.join(ks)
    if rng.random() < 0.2:
        s = s.upper()
    if rng.random() < 0.1:
        s = ' ' + s + ' '
    return s


class SortBroken(Exception):
    pass


def install_contract(ctx, rep):
    from pytrs.parser.containers import containers as C

    def ids_before(self):
        return sorted(id(x) for x in self._elements)

    def same_objects(self, OLD):
        ctx.hit('contract:custom_sort')
        now = sorted(id(x) for x in self._elements)
        if now != OLD.ids:
            rep.report('C17:custom_sort-contract',
                       f"custom_sort changed the multiset of elements: "
                       f"{len(OLD.ids)} before, {len(now)} after "
                       f"(or different objects)", dedup='perm')
        return True

    f = C._TRSTractList.__dict__['custom_sort']
    f = icontract.ensure(same_objects, error=SortBroken)(f)
    f = icontract.snapshot(ids_before, name='ids')(f)
    C._TRSTractList.custom_sort = f


def run_case(case, ctx, rep, pytrs):
    strs, kind, ks, keystr = (case['trs'], case['kind'], case['keys'],
                              case['keystr'])
    rep.set_case(case)
    with ctx.guard(case):
        if kind == 'trs':
            els = [pytrs.TRS(s) for s in strs]
            lst = pytrs.TRSList(els)
        else:
            # create in a permuted order so uid order != list order
            order = case['create_order']
            made = {}
            for j in order:
                made[j] = pytrs.Tract('x', trs=strs[j])
            els = [made[j] for j in range(len(strs))]
            lst = pytrs.TractList(els)
        tagged = [(i, describe(e, pytrs)) for i, e in enumerate(els)]
        model = [i for i, _ in S.model_sort(tagged, ks)]
        ctx.case([strs, kind, keystr, case.get('create_order')],
                 len(strs) >= 3 and model != list(range(len(strs))),
                 shape=f"{kind}|keys={len(ks)}",
                 sample={'elements': strs, 'key': keystr,
                         'model_order': [strs[i] for i in model]})
        if kind == 'plssdesc':
            d = pytrs.PLSSDesc('x', wait_to_parse=True)
            d.tracts = lst
            d.sort_tracts(keystr)
            got_objs = list(d.tracts)
            ctx.hit('boundary:sort_tracts')
        else:
            lst.custom_sort(keystr)
            got_objs = list(lst)
            ctx.hit('boundary:custom_sort')
        pos = {id(e): i for i, e in enumerate(els)}
        if sorted(id(x) for x in got_objs) != sorted(pos):
            ctx.violation('not-a-permutation', case,
                          f"sorting by {keystr!r} lost or duplicated "
                          f"elements: {len(els)} -> {len(got_objs)}")
            return
        got = [pos[id(x)] for x in got_objs]
        if got != model:
            ctx.violation(
                'order-differs-from-model', case,
                f"key {keystr!r} on {strs}: got "
                f"{[strs[i] for i in got]} (positions {got}), model "
                f"{[strs[i] for i in model]} (positions {model})",
                dedup='|'.join(sorted(set(k.split('.')[0] + '.' +
                                           (k.split('.')[1] if '.' in k else '')
                                           for k in ks))))
            return
        if case.get('edits'):
            run_again_after_edit(case, ctx, pytrs, lst,
                                 d if kind == 'plssdesc' else None, kind, ks,
                                 keystr)


def run_again_after_edit(case, ctx, pytrs, lst, d, kind, ks, keystr):
    """Elements are edited in place (.trs assigned) after the first sort;
    the same key sorts the list again, from the order it is in now."""
    ctx.hit('resort-after-element-edit')
    cur = list(d.tracts) if kind == 'plssdesc' else list(lst)
    for j, new in case['edits']:
        if j < len(cur):
            cur[j].trs = new
    now = [e.trs for e in cur]
    tagged = [(i, describe(e, pytrs)) for i, e in enumerate(cur)]
    model = [i for i, _ in S.model_sort(tagged, ks)]
    if kind == 'plssdesc':
        d.sort_tracts(keystr)
        got_objs = list(d.tracts)
    else:
        lst.custom_sort(keystr)
        got_objs = list(lst)
    pos = {id(e): i for i, e in enumerate(cur)}
    if sorted(id(x) for x in got_objs) != sorted(pos):
        ctx.violation('not-a-permutation', case,
                      f"second sort by {keystr!r} lost or duplicated elements")
        return
    got = [pos[id(x)] for x in got_objs]
    if got != model:
        ctx.violation(
            'order-differs-from-model:resort-after-edit', case,
            f"sorted by {keystr!r}, elements re-assigned to {now}, sorted by "
            f"the same key again: got {[now[i] for i in got]}, model "
            f"{[now[i] for i in model]}", dedup='resort')


def run_illegal(rng, ctx, pytrs):
    key = rng.choice(ILLEGAL)
    if rng.random() < 0.3:
        key = key.upper()
    kind = rng.choice(['tract', 'trs'])
    strs = [rand_trs(rng) for _ in range(rng.randint(0, 4))]
    case = {'illegal': key, 'kind': kind, 'trs': strs}
    ctx.case([key, kind, strs], True, shape='illegal-key',
             sample={'key': key, 'elements': strs})
    ctx.hit('illegal-key')
    lst = (pytrs.TractList([pytrs.Tract('x', trs=s) for s in strs])
           if kind == 'tract' else pytrs.TRSList(strs))
    try:
        lst.custom_sort(key)
    except ValueError:
        return
    except Exception as e:
        ctx.violation('illegal-key-wrong-exception', case,
                      f"custom_sort({key!r}) raised {type(e).__name__}: {e}",
                      dedup=key.lower())
        return
    ctx.violation('illegal-key-accepted', case,
                  f"custom_sort({key!r}) was accepted (no ValueError)",
                  dedup=key.lower())


def _setup(ctx):
    import pytrs
    from ..monitors.core import Reporter
    warnings.simplefilter('ignore')
    rep = Reporter(ctx)
    install_contract(ctx, rep)
    return pytrs, rep


def run_shard(shard, ctx):
    pytrs, rep = _setup(ctx)
    rng = ctx.rng(shard['family'], shard['i'])
    for n in range(shard['n']):
        k = rng.randint(0, 12)
        strs = [rand_trs(rng) for _ in range(k)]
        if k > 3 and rng.random() < 0.5:
            # force ties
            for _ in range(rng.randint(1, 3)):
                strs[rng.randrange(k)] = strs[rng.randrange(k)]
        ks = [rng.choice(KEYS) + rng.choice(['', '', '.rev', '.reverse'])
              for _ in range(rng.randint(1, 3))]
        order = list(range(k))
        rng.shuffle(order)
        case = {'trs': strs, 'kind': rng.choice(['tract', 'tract', 'trs',
                                                  'plssdesc']),
                'keys': ks, 'keystr': spell_key(rng, ks),
                'create_order': order}
        if k >= 2 and rng.random() < 0.4:
            case['edits'] = [[rng.randrange(k), rand_trs(rng)]
                             for _ in range(rng.randint(1, 3))]
        run_case(case, ctx, rep, pytrs)
        if n % 10 == 0:
            run_illegal(rng, ctx, pytrs)


def replay(case, ctx):
    pytrs, rep = _setup(ctx)
    if 'illegal' in case:
        rng = ctx.rng('sort', 0)
        for _ in range(300):
            run_illegal(rng, ctx, pytrs)
        return
    run_case(case, ctx, rep, pytrs)


MANIFEST_TEXT = (
    "Held on every sort observed: 20k (quick) / 600k (thorough) random lists "
    "x key strings compared by object identity with an independent stable "
    "multi-key model; every sort (also those inside other operations) is "
    "checked to be a permutation by an icontract snapshot/ensure contract; "
    "illegal keys must raise ValueError. Exploration.")
LEVEL_NOTE = "Trusts pv/oracles/sort.py (60 lines)."
TECHNIQUE = ("reference-model monitor (stable multi-key sort model) + runtime "
             "permutation contract (icontract snapshot/ensure) on custom_sort")
