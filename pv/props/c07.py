"""C07 -- aliquot spelling does not matter; preprocessing is a fixed point."""

import itertools

import icontract

from ..gen import blocks as B

PROP = 'C07'
RULE = (
    "Chains of 1-5 components (8 kinds) with an independent documented "
    "spelling per component (12-14 per component: symbol, '/2' '/4', bare "
    "'2' '4', '1/2' '1/4' with and without blank, dotted, 'North Half', "
    "'North One Half', 'No. Half', 'Northeast Quarter', 'North East "
    "Quarter', 'North East One Quarter', 'North-East Quarter', lower case, "
    "...) and an independent joiner ('', ' ', ' of ', ' of the '; '' only "
    "between compact spellings) under configs {default, clean_qq, "
    "qq_depth.3, qq_depth_min.1+break_halves, qq_depth_max.2}. Oracle: "
    "pp_desc == canonical 'N½NE¼...' text; lots/qqs == those of the "
    "canonical text; preprocess(preprocess(x)) == preprocess(x) and "
    "re-parsing pp_desc changes nothing (also as an icontract post-condition "
    "on scrub_aliquots). Bare-quarter family: 'NE' is an aliquot iff "
    "clean_qq or directly after a half. Context family: the same chains "
    "inside a longer description (before 'of Lot 1', ', Lot 1', 'less and "
    "except ...', after 'Lot 2, ', 'that part of the ' ...) give the "
    "preprocessed text, lots and aliquots of the canonical spelling in the "
    "same surroundings. Thorough: every (spelling x spelling "
    "x joiner) of all 64 two-component chains. Non-trivial: >= 2 components "
    "or a non-canonical spelling. Distinct by (text, config)."
)
ASSUMPTIONS = [
    "Spellings are those the regex docstrings / tests document; line breaks "
    "are not used as joiners (C06 known finding).",
    "The empty joiner is only used between compact spellings (symbol, "
    "slash, bare, fraction).",
    "'of' / 'of the' butted against the preceding component is only used "
    "after the symbol spelling (after '/4' or '4' the library requires a "
    "word boundary, so 'NE/4of' is not an aliquot at all).",
]
MIN_NONTRIVIAL = {'quick': 15000, 'thorough': 300000}
REQUIRED_MONITORS = ['boundary:Tract', 'fixed-point', 'unparsed-pp_desc',
                     'pp_desc-after-what-if',
                     'contract:scrub_aliquots', 'bare-quarter', 'context',
                     'bare-quarter:PLSSDesc', 'bare-quarter:reconfigured',
                     'boundary:PLSSDesc']
EXHAUSTIVE_SUBSPACES = {
    'thorough': ["all 64 two-component chains x every spelling pair x every "
                 "applicable joiner (default config)"],
}

CONFIGS = ['', 'clean_qq', 'qq_depth.3', 'qq_depth_min.1,break_halves',
           'qq_depth_max.2', 'clean_qq,qq_depth.1']
COMPACT = {'sym', 'slash', 'bare', 'frac', 'lower-slash'}
# Spellings that END in a digit / fraction symbol: a compact spelling may
# follow them directly (no joiner).
ENDS_IN_DIGIT = COMPACT | {'bare-sp', 'slash-sp', 'slash-sp2', 'frac-sp',
                           'dot-frac', 'word-frac', 'word-sym', 'abbr-frac'}
JOINERS = ['', ' ', ' of ', ' of the ']


def plan(tier, seed):
    if tier == 'quick':
        return ([{'family': 'random', 'n': 2500, 'i': i} for i in range(8)]
                + [{'family': 'bare', 'n': 400, 'i': 0}])
    return ([{'family': 'random', 'n': 25000, 'i': i} for i in range(20)]
            + [{'family': 'pairs', 'part': i, 'parts': 12} for i in range(12)]
            + [{'family': 'bare', 'n': 4000, 'i': 0}])


def render(chain, spellings, joiners):
    out = spellings[0][0]
    for (txt, tag), (ptxt, ptag), j in zip(spellings[1:], spellings, joiners):
        # A component may be butted against the previous one when that
        # one ends in a digit or fraction symbol and this one is compact, a
        # bare quarter after a half, or a spelling that begins with a capital
        # direction word ('N/2South Half').
        if j == '' and not (ptag in ENDS_IN_DIGIT
                            and (tag in COMPACT or tag == 'plain-after-half'
                                 or txt[:5] in ('North', 'South')
                                 or txt[:4] in ('East', 'West'))):
            j = ' '
        out += j + txt
    return out


def parse(pytrs, text, cfg):
    t = pytrs.Tract(text, parse_qq=True, config=cfg or None)
    return t


def check_chain(chain, spellings, joiners, cfg, ctx, rep, pytrs):
    text = render(chain, spellings, joiners)
    canon = B.canonical_chain(chain)
    case = {'chain': list(chain), 'text': text, 'cfg': cfg,
            'tags': [t for _, t in spellings], 'joiners': list(joiners)}
    rep.set_case(case)
    ctx.case([text, cfg], len(chain) >= 2 or text != canon,
             shape=f"len={len(chain)}|{cfg or 'default'}",
             sample={'text': text, 'canonical': canon, 'config': cfg})
    with ctx.guard(case):
        a = parse(pytrs, text, cfg)
        b = parse(pytrs, canon, cfg)
        ctx.hit('boundary:Tract')
        if a.pp_desc != canon:
            ctx.violation('not-normalised', case,
                          f"{text!r} normalises to {a.pp_desc!r}, canonical "
                          f"text is {canon!r}",
                          dedup='|'.join(sorted(set(case['tags']))))
            return
        if a.qqs != b.qqs or a.lots != b.lots \
                or a.aliquots_whole != b.aliquots_whole:
            ctx.violation('results-differ', case,
                          f"{text!r} gives lots {a.lots} qqs {a.qqs}; the "
                          f"canonical {canon!r} gives {b.lots} {b.qqs} "
                          f"(config {cfg!r})")
            return
        if len(text) % 3 == 0:
            # The same chain as the block of a full description, with and
            # without the OCR scrubbing of the description level.
            ctx.hit('boundary:PLSSDesc')
            ocr = len(text) % 2 == 0
            pcfg = ','.join(filter(None, [cfg, 'parse_qq',
                                          'ocr_scrub' if ocr else '']))
            # in front of its section (desc - Sec - Twp/Rge) every second time
            ptxt = (f"T154N-R97W Sec 14: {text}" if len(text) % 4 < 2 else
                    f"{text} of Section 14, T154N-R97W")
            d = pytrs.PLSSDesc(ptxt, config=pcfg)
            if len(d.tracts) != 1 or d.tracts[0].qqs != b.qqs \
                    or d.tracts[0].lots != b.lots:
                ctx.violation(
                    'results-differ', case,
                    f"PLSSDesc({ptxt!r}, config {pcfg!r})"
                    f" gives {[(t.lots, t.qqs, t.pp_desc) for t in d.tracts]}"
                    f"; Tract({canon!r}, config {cfg!r}) gives {b.lots} "
                    f"{b.qqs}", dedup=f"plss|{ocr}")
                return
            again = parse(pytrs, d.tracts[0].pp_desc, cfg)
            if again.qqs != b.qqs or again.lots != b.lots:
                ctx.violation(
                    'reparse-changes', case,
                    f"the tract's normalised text {d.tracts[0].pp_desc!r} "
                    f"(PLSSDesc config {pcfg!r}) parses to {again.lots} "
                    f"{again.qqs}, expected {b.lots} {b.qqs}",
                    dedup=f"plss-again|{ocr}")
                return
        ctx.hit('fixed-point')
        u = pytrs.Tract(text, config=cfg or None)       # not parsed
        if u.pp_desc != a.pp_desc or u.preprocess() != a.pp_desc:
            ctx.violation('not-a-fixed-point', case,
                          f"unparsed Tract({text!r}, config={cfg!r}) shows "
                          f"pp_desc {u.pp_desc!r}, preprocess() gives "
                          f"{u.preprocess()!r}; parsed: {a.pp_desc!r}",
                          dedup='unparsed')
            return
        pre = a.preprocess()
        t2 = pytrs.Tract(pre, config=cfg or None)
        if t2.preprocess() != pre:
            ctx.violation('not-a-fixed-point', case,
                          f"preprocess({pre!r}) == {t2.preprocess()!r}")
        c = parse(pytrs, a.pp_desc, cfg)
        if c.pp_desc != a.pp_desc or c.qqs != a.qqs or c.lots != a.lots:
            ctx.violation('reparse-changes', case,
                          f"re-parsing {a.pp_desc!r} gives {c.pp_desc!r} "
                          f"{c.lots} {c.qqs}, first parse gave {a.lots} "
                          f"{a.qqs}")


CONTEXTS = [('', ' of Lot 1'), ('', ' of the Lot 1'), ('', ' Lot 1'),
            ('', ', Lot 1'), ('Lot 2, ', ''), ('Lots 1 - 3; ', ', Lot 5'),
            ('', ' less and except the road'), ('', ' of Lots 4 and 5'),
            ('that part of the ', ' lying north of the river'),
            ('', '; '), ('', ' and the '), ('ALL of the ', ''),
            # closing punctuation directly after the chain
            ('(', ')'), ('Lot 1 (', ')'), ('', ': less and except the road'),
            ('', '& Lot 2'), ('Lot 3 [', ']')]


def check_context(chain, spellings, joiners, cfg, head, tail, ctx, rep, pytrs):
    """The chain inside a larger description: whatever surrounds it, every
    spelling gives the preprocessed text, lots and aliquots of the canonical
    spelling in the same surroundings."""
    text = head + render(chain, spellings, joiners) + tail
    canon = head + B.canonical_chain(chain) + tail
    case = {'context': True, 'chain': list(chain), 'text': text, 'cfg': cfg,
            'canon': canon, 'tags': [t for _, t in spellings]}
    rep.set_case(case)
    ctx.case([text, cfg], True, shape=f"context|{cfg or 'default'}",
             sample={'text': text, 'canonical': canon, 'config': cfg})
    ctx.hit('context')
    with ctx.guard(case):
        a = parse(pytrs, text, cfg)
        b = parse(pytrs, canon, cfg)
        if a.pp_desc != b.pp_desc or a.lots != b.lots or a.qqs != b.qqs:
            ctx.violation(
                'spelling-matters-in-context', case,
                f"{text!r} -> pp_desc {a.pp_desc!r} lots {a.lots} qqs "
                f"{a.qqs}; canonical spelling {canon!r} -> {b.pp_desc!r} "
                f"{b.lots} {b.qqs} (config {cfg!r})",
                dedup=f"{head}|{tail}|{spellings[-1][1]}|{spellings[0][1]}")


BARE_CASES = [
    # (text, aliquots_whole without clean_qq, with clean_qq)
    ('NE', [], ['NE']),
    ('the NE', [], ['NE']),
    ('SW', [], ['SW']),
    ('Lot 1, NE', [], ['NE']),
    ('N2NE', ['N2NE'], ['N2NE']),
    ('N/2NE', ['N2NE'], ['N2NE']),
    ('N/2 NE', ['N2NE'], ['N2NE']),
    ('N/2 of the NE', ['N2NE'], ['N2NE']),
    ('E½SW', ['E2SW'], ['E2SW']),
    ('E2NENW', ['E2NENW'], ['E2NENW']),
    ('W/2 of SE', ['W2SE'], ['W2SE']),
    ('NE, NW', [], ['NE', 'NW']),
    ('S/2; NE', ['S2'], ['S2', 'NE']),
    # after a QUARTER a bare quarter is an aliquot only under clean_qq
    ('NE/4 NW', ['NE'], ['NENW']),
    ('NE¼ of the SW', ['NE'], ['NESW']),
    ('N/2 of NE/4 of SW', ['N2NE'], ['N2NESW']),
    ('N½ NE¼ NW', ['N2NE'], ['N2NENW']),
    # a run of bare quarters directly after a half
    ('N2NENE', ['N2NENE'], ['N2NENE']),
    ('N/2 NE of NE', ['N2NENE'], ['N2NENE']),
    ('E2 NE NW SW', ['E2NENWSW'], ['E2NENWSW']),
]


def check_bare_reconfigured(text, exp_plain, exp_clean, ctx, rep, pytrs):
    """clean_qq switched on or off by assigning a new config to an existing
    tract (directly, or through the containers' config_tracts)."""
    for cfg0, cfg1, exp in (('clean_qq', 'clean_qq.False', exp_plain),
                            ('', 'clean_qq', exp_clean),
                            ('clean_qq', 'clean_qq=False', exp_plain),
                            ('clean_qq.False', 'clean_qq.True', exp_clean)):
        for how in ('tract.config', 'TractList.config_tracts',
                    'PLSSDesc.config_tracts'):
            case = {'bare': True, 'text': text, 'cfg': cfg0, 'then': cfg1,
                    'how': how}
            rep.set_case(case)
            ctx.case([text, cfg0, cfg1, how], True,
                     shape=f"bare-reconfigured|{cfg0}|{cfg1}|{how}",
                     sample=case)
            ctx.hit('bare-quarter:reconfigured')
            with ctx.guard(case):
                if how == 'PLSSDesc.config_tracts':
                    d = pytrs.PLSSDesc(f"T154N-R97W Sec 14: {text}",
                                       config=cfg0 or None)
                    if len(d.tracts) != 1:
                        continue
                    d.config_tracts(cfg1)
                    d.parse_tracts()
                    t = d.tracts[0]
                else:
                    t = pytrs.Tract(text, config=cfg0 or None,
                                    parse_qq=bool(len(text) % 2))
                    if how == 'tract.config':
                        t.config = cfg1
                    else:
                        pytrs.TractList([t]).config_tracts(cfg1)
                    t.parse()
                if t.aliquots_whole != exp:
                    ctx.violation(
                        'bare-quarter', case,
                        f"{text!r} configured {cfg0!r}, then re-configured "
                        f"{cfg1!r} through {how} and parsed: aliquots "
                        f"{t.aliquots_whole} (pp {t.pp_desc!r}), expected "
                        f"{exp}", dedup=f"reconf|{cfg1}|{how}")


def check_bare(text, exp_plain, exp_clean, ctx, rep, pytrs):
    check_bare_reconfigured(text, exp_plain, exp_clean, ctx, rep, pytrs)
    # clean_qq off / on, each reached through the config string, through the
    # parse() keyword, and through a keyword contradicting the config.
    for cfg, kw, exp in (('', None, exp_plain), ('clean_qq', None, exp_clean),
                         ('', True, exp_clean), ('', False, exp_plain),
                         ('clean_qq', False, exp_plain),
                         ('clean_qq.False', True, exp_clean)):
        case = {'bare': True, 'text': text, 'cfg': cfg, 'kw': kw}
        rep.set_case(case)
        ctx.case([text, cfg, kw], True,
                 shape=f"bare|{cfg or 'default'}|kw={kw}",
                 sample={'text': text, 'config': cfg, 'clean_qq_keyword': kw,
                         'expected_whole': exp})
        ctx.hit('bare-quarter')
        with ctx.guard(case):
            if kw is None:
                t = pytrs.Tract(text, parse_qq=True, config=cfg or None)
                # A tract that was configured but not parsed shows the same
                # preprocessed text, and preprocessing again changes nothing.
                ctx.hit('unparsed-pp_desc')
                u = pytrs.Tract(text, config=cfg or None)
                shown = u.pp_desc
                again = u.preprocess()
                if not (shown == again == t.pp_desc):
                    ctx.violation(
                        'bare-quarter', case,
                        f"{text!r} config {cfg!r}: an unparsed Tract shows "
                        f"pp_desc {shown!r}, its preprocess() gives {again!r}"
                        f", a parsed Tract has {t.pp_desc!r}",
                        dedup=f"unparsed|{cfg}")
                # a what-if parse under the opposite setting leaves the
                # committed preprocessed text as it is: it is still what
                # preprocess() gives under the tract's own settings
                ctx.hit('pp_desc-after-what-if')
                kept = t.pp_desc
                t.parse(commit=False, clean_qq=(cfg != 'clean_qq'))
                if not (t.pp_desc == kept == t.preprocess()):
                    ctx.violation(
                        'bare-quarter', case,
                        f"{text!r} config {cfg!r}: committed pp_desc {kept!r}"
                        f"; after parse(commit=False, clean_qq="
                        f"{cfg != 'clean_qq'}) it reads {t.pp_desc!r}, "
                        f"preprocess() gives {t.preprocess()!r}",
                        dedup=f"whatif-pp|{cfg}")
            elif cfg and ctx.evaluations % 2:
                # parsed once under the config, then again with the keyword
                t = pytrs.Tract(text, parse_qq=True, config=cfg)
                t.parse(clean_qq=kw)
            else:
                t = pytrs.Tract(text, config=cfg or None)
                t.parse(clean_qq=kw)
                pp = t.preprocess(clean_qq=kw)
                if pp != t.pp_desc:
                    ctx.violation(
                        'bare-quarter', case,
                        f"{text!r} config {cfg!r}: preprocess(clean_qq={kw}) "
                        f"gives {pp!r} but parse(clean_qq={kw}) committed "
                        f"{t.pp_desc!r}", dedup=f"pp|{cfg}|{kw}")
            if kw is None:
                # the same through a description: the tract of a PLSSDesc
                # configured likewise reads the bare quarter the same way
                ctx.hit('bare-quarter:PLSSDesc')
                d = pytrs.PLSSDesc(
                    f"T154N-R97W Sec 14: {text}",
                    config=','.join(filter(None, [cfg, 'parse_qq'])))
                got = [a for t_ in d.tracts for a in t_.aliquots_whole]
                if len(d.tracts) == 1 and got != exp:
                    ctx.violation(
                        'bare-quarter', case,
                        f"PLSSDesc('T154N-R97W Sec 14: {text}', config "
                        f"{cfg!r}+parse_qq): aliquots {got} (pp "
                        f"{d.tracts[0].pp_desc!r}), expected {exp}",
                        dedup=f"plss|{cfg}|{bool(exp)}")
                d.parse_tracts()
                got = [a for t_ in d.tracts for a in t_.aliquots_whole]
                if len(d.tracts) == 1 and got != exp:
                    ctx.violation(
                        'bare-quarter', case,
                        f"... and after parse_tracts(): aliquots {got}, "
                        f"expected {exp}", dedup=f"plss-pt|{cfg}|{bool(exp)}")
            if t.aliquots_whole != exp:
                ctx.violation(
                    'bare-quarter', case,
                    f"{text!r} with config {cfg!r} / clean_qq keyword {kw}: "
                    f"aliquots {t.aliquots_whole} (pp {t.pp_desc!r}), "
                    f"expected {exp}", dedup=f"{cfg}|{kw}|{bool(exp)}")


class ScrubBroken(Exception):
    pass


def _setup(ctx):
    import pytrs
    import warnings
    from pytrs.parser.tract import tract_preprocess as TPRE
    from ..monitors import core
    from ..monitors.core import Reporter
    warnings.simplefilter('ignore')
    rep = Reporter(ctx)
    orig = TPRE.scrub_aliquots

    def scrub_is_idempotent(txt, clean_qq, result):
        ctx.hit('contract:scrub_aliquots')
        again = orig(result, clean_qq)
        if again != result:
            rep.report('C07:scrub_aliquots-contract',
                       f"scrub_aliquots({txt!r}, clean_qq={clean_qq}) == "
                       f"{result!r} but scrubbing that again gives {again!r}",
                       dedup=str(clean_qq))
        return True

    checked = icontract.ensure(scrub_is_idempotent, error=ScrubBroken)(orig)
    core.rebind_function(orig, checked)
    return pytrs, rep


def run_shard(shard, ctx):
    pytrs, rep = _setup(ctx)
    fam = shard['family']
    table = {c: B.component_spellings(c) for c in B.COMPONENTS}
    if fam == 'pairs':
        k = 0
        for c1, c2 in itertools.product(B.COMPONENTS, repeat=2):
            for s1 in table[c1]:
                for s2 in table[c2]:
                    for j in JOINERS:
                        if j == '' and not (s1[1] in ENDS_IN_DIGIT
                                            and s2[1] in COMPACT):
                            continue
                        k += 1
                        if k % shard['parts'] != shard['part']:
                            continue
                        check_chain((c1, c2), [s1, s2], [j], '', ctx, rep,
                                    pytrs)
        return
    rng = ctx.rng(fam, shard['i'])
    if fam == 'bare':
        for text, p, c in BARE_CASES:
            check_bare(text, p, c, ctx, rep, pytrs)
        quarters = B.QUARTERS
        for _ in range(shard['n']):
            q = rng.choice(quarters)
            h = rng.choice(B.HALVES)
            hs = rng.choice([f"{h}/2", f"{h}½", f"{h}2", f"{h} 1/2"])
            j = rng.choice(['', ' ', ' of ', ' of the '])
            if hs.endswith('1/2') and j == '':
                j = ' '
            check_bare(f"{hs}{j}{q}", [f"{h}2{q}"], [f"{h}2{q}"], ctx, rep, pytrs)
            lead = rng.choice(['the ', 'Lot 3, ', 'That part of the ', ''])
            check_bare(f"{lead}{q}", [], [q], ctx, rep, pytrs)
            q0 = rng.choice(quarters)
            qs = rng.choice([f"{q0}/4", f"{q0}¼", f"{q0} 1/4"])
            j2 = rng.choice([' ', ' of ', ' of the '])
            check_bare(f"{qs}{j2}{q}", [q0], [q0 + q], ctx, rep, pytrs)
            check_bare(f"{hs}{j}{q}{rng.choice(['', ' ', ' of '])}{q0}",
                       [f"{h}2{q}{q0}"], [f"{h}2{q}{q0}"], ctx, rep, pytrs)
        return
    for _ in range(shard['n']):
        n = rng.choice([1, 2, 2, 3, 3, 4, 5])
        chain = tuple(rng.choice(B.COMPONENTS) for _ in range(n))
        spellings = [rng.choice(table[c]) for c in chain]
        joiners = [rng.choice(JOINERS) for _ in range(n - 1)]
        cfg = rng.choice(CONFIGS)
        if 'clean_qq' in cfg and rng.random() < 0.6:
            # Under clean_qq a bare two-letter quarter is an aliquot too.
            for i, c in enumerate(chain):
                if c in B.QUARTERS and rng.random() < 0.5:
                    spellings[i] = (rng.choice([c, c.lower(), c.title()]),
                                    'plain')
        if rng.random() < 0.35:
            # Directly after a half a bare quarter is an aliquot under every
            # configuration ('E/2NE', 'NW/4E/2NE', 'North Half of the SW').
            # ... and so is a run of bare quarters that starts directly
            # after a half ('E½NENW' -> 'E½NE¼NW¼', documented at
            # half_plus_q_scrubber).
            for i in range(1, n):
                after_half = (chain[i - 1] in B.HALVES
                              and spellings[i - 1][1] not in
                              ('plain', 'plain-after-half'))
                in_run = spellings[i - 1][1] == 'plain-after-half'
                if chain[i] in B.QUARTERS and (after_half or
                                               (in_run and rng.random() < 0.7)):
                    c = chain[i]
                    spellings[i] = (rng.choice([c, c, c.lower(), c.title()]),
                                    'plain-after-half')
        for i in range(n - 1):
            # 'of' / 'of the' butted against a component written with the
            # fraction symbol ('NE¼of the NW¼'): the library's remover of
            # intervening words provides for it.
            if spellings[i][1] == 'sym' and rng.random() < 0.12:
                joiners[i] = rng.choice(['of ', 'of the ', 'ofthe '])
        check_chain(chain, spellings, joiners, cfg, ctx, rep, pytrs)
        if rng.random() < 0.3:
            head, tail = rng.choice(CONTEXTS)
            check_context(chain, spellings, joiners, cfg, head, tail, ctx,
                          rep, pytrs)


def replay(case, ctx):
    pytrs, rep = _setup(ctx)
    if case.get('context'):
        a = parse(pytrs, case['text'], case['cfg'])
        b = parse(pytrs, case['canon'], case['cfg'])
        ctx.case([case['text'], case['cfg']], True, shape='context')
        ctx.hit('context')
        if a.pp_desc != b.pp_desc or a.lots != b.lots or a.qqs != b.qqs:
            ctx.violation('spelling-matters-in-context', case,
                          f"{case['text']!r} -> {a.pp_desc!r} {a.lots} "
                          f"{a.qqs}; canonical {case['canon']!r} -> "
                          f"{b.pp_desc!r} {b.lots} {b.qqs}")
        return
    if case.get('bare'):
        for text, p, c in BARE_CASES:
            if text == case['text']:
                check_bare(text, p, c, ctx, rep, pytrs)
        return
    table = {c: dict((t, (s, t)) for s, t in B.component_spellings(c))
             for c in B.COMPONENTS}
    spellings = [(c, 'plain') if t == 'plain' else table[c][t]
                 for c, t in zip(case['chain'], case['tags'])]
    check_chain(tuple(case['chain']), spellings, case['joiners'], case['cfg'],
                ctx, rep, pytrs)


MANIFEST_TEXT = (
    "Held on every chain observed: 20k (quick) / ~500k+ (thorough) chains "
    "with independent spelling and joiner choices under five configs, "
    "compared with the canonical text and its results, with fixed-point "
    "checks at the boundary and as an icontract post-condition on "
    "scrub_aliquots; thorough enumerates every spelling pair x joiner for "
    "all 64 two-component chains. Exploration beyond that.")
LEVEL_NOTE = ("Trusts the spelling table in pv/gen/blocks.py to contain only "
              "documented spellings.")
TECHNIQUE = ("differential/metamorphic oracle (spelled text vs canonical "
             "text) + idempotence contract (icontract ensure) on "
             "scrub_aliquots")
