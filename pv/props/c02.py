"""C02 -- aliquot parsing tiles exactly the described area."""

import itertools
import warnings

from ..oracles import aliquot as A

PROP = 'C02'
RULE = (
    "Chains over the 8 components (N S E W NE NW SE SW): every chain of "
    "length <= 4 (quick) / <= 5 (thorough) under every one of 24 depth "
    "settings (min 1-3 x max None|min|min+1 x break_halves, qq_depth 1-3 x "
    "break_halves); longer chains exhaustively (len 5 quick, len 6 thorough) "
    "under 6 rotating settings; random chains of length 5-8 with min <= 4; "
    "'ALL'. Each through Tract(text, parse_qq=True, config=...) or "
    "Tract.parse(keywords), Tract.parse(keywords) over a contrary configured "
    "qq_depth, PLSSDesc(config) / PLSSDesc.parse(keywords) (settings handed "
    "down to the tract) or a direct parse_aliquot call, and judged by the "
    "geometric model (pv/oracles/aliquot.py): pieces inside the region, "
    "pairwise disjoint, areas add up, min/max depth, no half under "
    "break_halves. The same judgement runs as an icontract post-condition on "
    "every parse_aliquot call. Non-trivial: chain length >= 2 or non-default "
    "depth settings. Distinct by (chain, settings)."
)
ASSUMPTIONS = [
    "max < min is excluded (documented as unsupported, with a warning).",
    "Chains mixing ALL with other components are not generated (not a chain "
    "by design).",
    "min depth > 4 is out of bounds (documented as exponential).",
]
MIN_NONTRIVIAL = {'quick': 100000, 'thorough': 1000000}
REQUIRED_MONITORS = ['contract:parse_aliquot', 'boundary:Tract.qqs',
                     'boundary:PLSSDesc.qqs', 'direct:parse_aliquot',
                     'boundary:Tract.parse(commit=False)']
EXHAUSTIVE_SUBSPACES = {
    'quick': ["all 4680 chains of length <= 4 x 24 depth settings",
              "all 32768 chains of length 5 x 6 rotating depth settings"],
    'thorough': ["all 37448 chains of length <= 5 x 24 depth settings",
                 "all 262144 chains of length 6 x 6 rotating depth settings"],
}

SETTINGS = []
for _mn in (1, 2, 3):
    for _mx in (None, _mn, _mn + 1):
        for _bh in (False, True):
            SETTINGS.append({'min': _mn, 'max': _mx, 'depth': None, 'bh': _bh})
for _d in (1, 2, 3):
    for _bh in (False, True):
        SETTINGS.append({'min': None, 'max': None, 'depth': _d, 'bh': _bh})
# Depth 0: no division is forced (min) / every division is ignored (max),
# the latter leaving the whole section.
for _bh in (False, True):
    SETTINGS.append({'min': 0, 'max': None, 'depth': None, 'bh': _bh})
    SETTINGS.append({'min': 0, 'max': 0, 'depth': None, 'bh': _bh})
    SETTINGS.append({'min': 0, 'max': 1, 'depth': None, 'bh': _bh})
    SETTINGS.append({'min': None, 'max': None, 'depth': 0, 'bh': _bh})
ROTATING = [SETTINGS[i] for i in (0, 3, 8, 11, 14, 20)]

SYM = {'N': 'N½', 'S': 'S½', 'E': 'E½', 'W': 'W½', 'NE': 'NE¼', 'NW': 'NW¼',
       'SE': 'SE¼', 'SW': 'SW¼', 'ALL': 'ALL'}


def plan(tier, seed):
    shards = []
    if tier == 'quick':
        for part in range(8):
            shards.append({'family': 'exh', 'maxlen': 4, 'part': part, 'parts': 8})
        for part in range(4):
            shards.append({'family': 'exh-rot', 'len': 5, 'part': part, 'parts': 4})
        shards.append({'family': 'random', 'n': 4000, 'i': 0})
    else:
        for part in range(32):
            shards.append({'family': 'exh', 'maxlen': 5, 'part': part, 'parts': 32})
        for part in range(16):
            shards.append({'family': 'exh-rot', 'len': 6, 'part': part, 'parts': 16})
        for i in range(16):
            shards.append({'family': 'random', 'n': 12000, 'i': i})
    return shards


def _effective(st):
    if st['depth'] is not None:
        return st['depth'], st['depth']
    return st['min'], st['max']


def _config_text(st, order=0):
    parts = []
    if st['min'] is not None:
        parts.append(f"qq_depth_min.{st['min']}")
    if st['max'] is not None:
        parts.append(f"qq_depth_max.{st['max']}")
    if st['depth'] is not None:
        parts.append(f"qq_depth.{st['depth']}")
    if st['bh']:
        parts.append('break_halves')
    # the settings of a config text may come in any order
    if order % 2:
        parts.reverse()
    k = (order // 2) % max(1, len(parts))
    parts = parts[k:] + parts[:k] if order % 4 >= 2 else parts
    return ','.join(parts)


def check_case(chain, st, channel, ctx, rep, pytrs):
    text = ''.join(SYM[c] for c in chain)
    case = {'chain': list(chain), 'settings': st, 'channel': channel}
    rep.set_case(case)
    mn, mx = _effective(st)
    default = (st == SETTINGS[2] or (mn, mx, st['bh']) == (2, None, False))
    ctx.case([list(chain), st, channel], len(chain) >= 2 or not default,
             shape=f"len={len(chain)}|{channel}", sample=case)
    with ctx.guard(case):
        if channel == 'config':
            t = pytrs.Tract(text, parse_qq=True,
                            config=_config_text(st, len(chain) + len(text)))
            qqs, whole = t.qqs, t.aliquots_whole
            ctx.hit('boundary:Tract.qqs')
        elif channel == 'keyword':
            t = pytrs.Tract(text)
            kw = {'break_halves': st['bh']}
            if st['min'] is not None:
                kw['qq_depth_min'] = st['min']
            if st['max'] is not None:
                kw['qq_depth_max'] = st['max']
            if st['depth'] is not None:
                kw['qq_depth'] = st['depth']
            if (len(chain) + (st['min'] or 0)) % 2:
                # the pieces returned by a parse that is not committed
                qqs, whole = t.parse(commit=False, **kw), None
                ctx.hit('boundary:Tract.parse(commit=False)')
            else:
                t.parse(**kw)
                qqs, whole = t.qqs, t.aliquots_whole
            ctx.hit('boundary:Tract.qqs')
        elif channel == 'plssdesc':
            # depth settings handed down from a description's config text
            d = pytrs.PLSSDesc(f"T154N-R97W Sec 14: {text}",
                               config=(_config_text(st) + ',parse_qq').lstrip(','))
            qqs = d.tracts[0].qqs if len(d.tracts) == 1 else None
            ctx.hit('boundary:PLSSDesc.qqs')
            if qqs is None:
                ctx.violation('plssdesc-tracts', case,
                              f"{len(d.tracts)} tracts for a one-section text")
                return
        elif channel == 'plssdesc-keyword':
            # (when min/max are given as keywords, an exact depth in the
            # description's own config no longer applies)
            own = (f"qq_depth.{3 - (len(chain) % 3)}"
                   if st['depth'] is None and len(chain) % 2 else None)
            d = pytrs.PLSSDesc(f"T154N-R97W Sec 14: {text}", config=own,
                               wait_to_parse=True)
            kw = {'break_halves': st['bh'], 'parse_qq': True}
            if own and st['min'] is None:
                kw['qq_depth_min'] = 2
            for a, b in (('min', 'qq_depth_min'), ('max', 'qq_depth_max'),
                         ('depth', 'qq_depth')):
                if st[a] is not None:
                    kw[b] = st[a]
            tl = d.parse(**kw)
            qqs = tl[0].qqs
            ctx.hit('boundary:PLSSDesc.qqs')
        elif channel == 'reconfigure':
            # already parsed under other settings, then reconfigured through
            # the list, then re-parsed with no arguments at all
            # (the first configuration sets only a minimum, so that the
            # second one never has to UNset anything -- assigning a config
            # keeps the earlier values of settings it does not mention)
            tl = pytrs.TractList([pytrs.Tract(
                text, parse_qq=True, config='qq_depth_min.1')])
            own = _config_text(st)
            if st['min'] is None and st['depth'] is None:
                own = (own + ',qq_depth_min.2').lstrip(',')
            tl.config_tracts(own)
            tl.parse_tracts()
            qqs, whole = tl[0].qqs, None
            ctx.hit('boundary:TractList.parse_tracts')
        elif channel == 'parse_tracts-config':
            # a description parsed under the defaults; its tracts are then
            # re-parsed under a config handed to parse_tracts()
            d = pytrs.PLSSDesc(f"T154N-R97W Sec 14: {text}", parse_qq=True)
            own = _config_text(st, len(chain))
            if st['min'] is None and st['depth'] is None:
                own = (own + ',qq_depth_min.2').lstrip(',')
            d.parse_tracts(config=own)
            qqs = d.tracts[0].qqs if len(d.tracts) == 1 else None
            ctx.hit('boundary:PLSSDesc.parse_tracts(config)')
            if qqs is None:
                return
        elif channel == 'keyword-over-config':
            # a configured exact depth is ignored once min/max (or another
            # depth) is passed as keyword -- documented in Tract.parse
            t = pytrs.Tract(text, config=f"qq_depth.{3 - (len(chain) % 3)}")
            kw = {'break_halves': st['bh']}
            if st['depth'] is not None:
                kw['qq_depth'] = st['depth']
            else:
                kw['qq_depth_min'] = st['min']
                if st['max'] is not None:
                    kw['qq_depth_max'] = st['max']
            t.parse(**kw)
            qqs = t.qqs
            ctx.hit('boundary:Tract.qqs')
        else:
            from pytrs.parser.tract import aliquot_parse
            qqs = aliquot_parse.parse_aliquot(
                text, st['min'] if st['min'] is not None else 2, st['max'],
                st['depth'], st['bh'])
            whole = None
            ctx.hit('direct:parse_aliquot')
        why = A.check_pieces(list(chain), mn, mx, st['bh'], qqs)
        if why is not None:
            ctx.violation('not-a-tiling', case,
                          f"{text!r} under {st} via {channel} -> {qqs}: {why}",
                          dedup=why[:40])


def _setup(ctx):
    import pytrs
    from ..monitors.core import Reporter
    from ..monitors import aliquot_contract
    warnings.simplefilter('ignore')
    rep = Reporter(ctx)
    aliquot_contract.install(ctx, rep)
    return pytrs, rep


# Rotation: the two description-level channels are ~10x dearer per case.
CHANNELS = ('config', 'keyword', 'direct', 'keyword-over-config',
            'config', 'keyword', 'direct', 'plssdesc',
            'config', 'keyword', 'direct', 'keyword-over-config',
            'config', 'keyword', 'direct', 'plssdesc-keyword',
            'config', 'keyword', 'reconfigure', 'direct',
            'parse_tracts-config')


def run_shard(shard, ctx):
    pytrs, rep = _setup(ctx)
    fam = shard['family']
    if fam == 'exh':
        k = 0
        for L in range(1, shard['maxlen'] + 1):
            for chain in itertools.product(A.COMPONENTS, repeat=L):
                k += 1
                if k % shard['parts'] != shard['part']:
                    continue
                for si, st in enumerate(SETTINGS):
                    check_case(chain, st, CHANNELS[(k + si) % len(CHANNELS)], ctx, rep,
                               pytrs)
        if shard['part'] == 0:
            for si, st in enumerate(SETTINGS):
                for ch in CHANNELS:
                    check_case(('ALL',), st, ch, ctx, rep, pytrs)
        return
    if fam == 'exh-rot':
        k = 0
        for chain in itertools.product(A.COMPONENTS, repeat=shard['len']):
            k += 1
            if k % shard['parts'] != shard['part']:
                continue
            st = ROTATING[k % len(ROTATING)]
            check_case(chain, st, CHANNELS[k % len(CHANNELS)], ctx, rep, pytrs)
        return
    rng = ctx.rng('random', shard['i'])
    for _ in range(shard['n']):
        L = rng.randint(5, 8)
        chain = tuple(rng.choice(A.COMPONENTS) for _ in range(L))
        mn = rng.choice([1, 2, 2, 3, 4])
        if rng.random() < 0.3:
            st = {'min': None, 'max': None, 'depth': mn,
                  'bh': rng.random() < 0.4}
        else:
            mx = rng.choice([None, mn, mn + 1, mn + 2])
            st = {'min': mn, 'max': mx, 'depth': None, 'bh': rng.random() < 0.4}
        check_case(chain, st, rng.choice(CHANNELS), ctx, rep, pytrs)


def replay(case, ctx):
    pytrs, rep = _setup(ctx)
    check_case(tuple(case['chain']), case['settings'], case['channel'], ctx,
               rep, pytrs)


MANIFEST_TEXT = (
    "Held on every execution observed: all component chains up to length 4/5 "
    "under all 24 depth settings and all chains of length 5/6 under rotating "
    "settings (exhaustive), plus random chains up to length 8, each judged by "
    "an exact-arithmetic geometric tiling model both at the Tract boundary and "
    "as an icontract post-condition on every real parse_aliquot call. "
    "Exploration beyond the enumerated lengths.")
LEVEL_NOTE = (
    "Trusts pv/oracles/aliquot.py (Fraction rectangles; 'max depth' = ignore "
    "halvings beyond max per axis, the property's wording).")
TECHNIQUE = ("runtime contract (icontract ensure on parse_aliquot) + geometric "
             "reference model over exhaustive short chains and random long ones")
