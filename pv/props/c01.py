"""C01 -- descriptions in the documented layouts parse back to their tracts."""

import itertools
import re

from ..gen import plss as G
from ..gen import blocks as B

PROP = 'C01'
RULE = (
    "Abstract descriptions (1-3 Twp/Rge groups x 1-3 section groups, each a "
    "single section, an 'and' pair or a 'through' range, x description blocks: "
    "lots, lot ranges/lists, acreages, lot divisions, aliquot chains in "
    "several spellings, ALL, prose) rendered in one of the four documented "
    "layouts with random documented Twp/Rge spelling (6), section word (6), "
    "plural, connectors, joiners and separators; numbers 1-999, sections "
    "1-99. Oracle: expand(abstract) == [(trs, desc)] of PLSSDesc(text).tracts, "
    "no error flag, deduced layout == rendered layout, and "
    "PLSSDesc(pretty_desc()) gives the same list (whitespace-collapsed). "
    "Excluded: block 'ALL' directly followed by ' of <Twp/Rge>' (documented "
    "context phrase). Non-trivial: >= 2 expected tracts and (a multi-section "
    "group or > 1 Twp/Rge group). Distinct by rendered text."
)
ASSUMPTIONS = [
    "Only documented renderings are generated (connector ': ' after sections "
    "in TRS_desc/S_desc_TR, ' of ' before sections in TR_desc_S/desc_STR, "
    "Sec->Twp/Rge connector ', ' in desc_STR and ', ' or ' of ' in S_desc_TR).",
    "Blocks satisfy pv.gen.blocks.acceptable_block (no Twp/Rge or section "
    "look-alike; no leading/trailing separator or of/in/the/and/all).",
]
MIN_NONTRIVIAL = {'quick': 1500, 'thorough': 40000}
REQUIRED_MONITORS = ['boundary:PLSSDesc', 'roundtrip:pretty_desc',
                     'hook:deduce_layout', 'hook:populate_markers',
                     'hook:_stage_new_tract',
                     'numlead', 'boundary:PLSSDesc:colon-mode-neutral',
                     'variant:line-ends', 'variant:all-of']
EXHAUSTIVE_SUBSPACES = {
    'thorough': ["4 layouts x 6 Twp/Rge spellings x 6 section words x 5 "
                 "separators on a fixed 2x2 skeleton"],
    'quick': ["4 layouts x 6 Twp/Rge spellings x 6 section words on a fixed "
              "2x2 skeleton (separator ', ')"],
}


def plan(tier, seed):
    if tier == 'quick':
        return ([{'family': 'random', 'n': 700, 'i': i} for i in range(8)]
                + [{'family': 'skeleton', 'seps': [', ']}])
    return ([{'family': 'random', 'n': 8000, 'i': i} for i in range(16)]
            + [{'family': 'skeleton', 'seps': [', ', '; ', '\n', ',\n', ';\n']}])


def _ws(s):
    return re.sub(r'\s+', ' ', s).strip()


def check_case(case, ctx, rec, pytrs):
    text, exp, layout = case['text'], case['expected'], case['layout']
    shape = case.get('shape', {})
    nontrivial = len(exp) >= 2 and (shape.get('multi') or shape.get('groups', 1) > 1)
    ctx.case(text, nontrivial,
             shape=f"{layout}|{shape.get('spelling')}|groups={shape.get('groups')}",
             sample={'text': text, 'expected': exp})
    rec.reset()
    with ctx.guard(case):
        d = pytrs.PLSSDesc(text)
        ctx.hit('boundary:PLSSDesc')
        got = [[t.trs, t.desc] for t in d.tracts]

        def witness():
            mk = rec.of('markers')
            return {'markers': mk[-1]['markers'] if mk else None,
                    'deduced': [e['layout'] for e in rec.of('deduce_layout')],
                    'pp_desc': d.pp_desc}
        if got != exp:
            ctx.violation('tracts-differ', case,
                          f"expected {exp} got {got}", witness=witness(),
                          dedup=f"{layout}")
            return
        if d.e_flags:
            ctx.violation('error-flag', case,
                          f"error flags {d.e_flags} on a well-formed "
                          f"description", witness=witness(), dedup=layout)
            return
        if d.current_layout != layout:
            ctx.violation('layout-misdeduced', case,
                          f"rendered as {layout}, deduced "
                          f"{d.current_layout}", witness=witness(),
                          dedup=layout)
            return
        if d.desc_is_flawed:
            ctx.violation('flawed', case, "desc_is_flawed on a well-formed "
                          "description")
            return
        if '\n' in text and len(text) % 2:
            # the same description with other line ends: a bare carriage
            # return (old Mac) reads exactly like a line feed; CR+LF up to
            # blank space
            ctx.hit('variant:line-ends')
            for nl in ('\r', '\r\n'):
                dv = pytrs.PLSSDesc(text.replace('\n', nl))
                gotv = [[t.trs, t.desc] for t in dv.tracts]
                same = (gotv == exp if nl == '\r' else
                        [[a, _ws(b)] for a, b in gotv]
                        == [[a, _ws(b)] for a, b in exp])
                if not same or dv.e_flags:
                    ctx.violation(
                        'tracts-differ', case,
                        f"with line ends {nl!r}: expected {exp} got {gotv} "
                        f"(e_flags {dv.e_flags})", dedup=f"nl|{nl!r}|{layout}")
                    return
        if layout in ('desc_STR', 'TR_desc_S') and len(text) % 3 == 1 \
                and case.get('spans'):
            # 'of' in front of a section written ', all of' / ', all in'
            # (the documented context phrase): same tracts
            tv = text
            n_all = 0
            for a, b, k in sorted(case['spans'], reverse=True):
                if k == 'sec' and tv[max(0, a - 4):a] == ' of ' \
                        and not tv[:a - 4].rstrip().upper().endswith('ALL'):
                    tv = tv[:a - 4] + (', all of ', ', all in ')[a % 2] + tv[a:]
                    n_all += 1
            if n_all:
                ctx.hit('variant:all-of')
                dv = pytrs.PLSSDesc(tv)
                gotv = [[t.trs, t.desc] for t in dv.tracts]
                if gotv != exp or dv.e_flags:
                    ctx.violation(
                        'tracts-differ', case,
                        f"with ', all of' / ', all in' in front of the "
                        f"sections ({tv!r}): expected {exp} got {gotv} "
                        f"(e_flags {dv.e_flags})", dedup=f"allof|{layout}")
                    return
        if len(text) % 4 == 0:
            # a description in one layout reads the same chunk by chunk
            ctx.hit('boundary:PLSSDesc:segment')
            ds = pytrs.PLSSDesc(text, config='segment')
            gots = [[t.trs, t.desc] for t in ds.tracts]
            if gots != exp or ds.e_flags:
                ctx.violation('tracts-differ', case,
                              f"with config 'segment': expected {exp} got "
                              f"{gots} (e_flags {ds.e_flags})",
                              dedup=f"segment|{layout}")
                return
        if layout in ('TR_desc_S', 'desc_STR') and len(text) % 3 == 0:
            # The colon modes are documented to have an effect only where
            # the section precedes its block (TRS_desc, S_desc_TR).
            ctx.hit('boundary:PLSSDesc:colon-mode-neutral')
            mode = ('sec_colon_required', 'sec_colon_cautious')[len(text) % 2]
            dc = pytrs.PLSSDesc(text, config=mode)
            gotc = [[t.trs, t.desc] for t in dc.tracts]
            if gotc != exp or dc.e_flags:
                ctx.violation('tracts-differ', case,
                              f"with config {mode!r} (layout {layout}, on "
                              f"which it has no effect): expected {exp} got "
                              f"{gotc} (e_flags {dc.e_flags})",
                              dedup=f"{mode}|{layout}")
                return
        k = len(text) % 4
        pretty = (d.pretty_desc() if k < 2 else
                  d.pretty_desc(word_sec='Section ') if k == 2 else
                  d.pretty_desc(word_sec='§ ', justify_linebreaks=''))
        d2 = pytrs.PLSSDesc(pretty)
        ctx.hit('roundtrip:pretty_desc')
        got2 = [[t.trs, _ws(t.desc)] for t in d2.tracts]
        exp2 = [[a, _ws(b)] for a, b in exp]
        if got2 != exp2 or d2.e_flags:
            ctx.violation('pretty-roundtrip', case,
                          f"pretty_desc {pretty!r} parses to {got2} "
                          f"(e_flags {d2.e_flags}), expected {exp2}",
                          dedup=layout)


def check_numlead(rng, ctx, pytrs):
    """
    One Twp/Rge, one section, and a description block that begins with a
    number: 'T154N-R97W Sec 14: 40 acres in the NE/4'. Expected: one tract,
    the block verbatim. Recorded finding: the number is read as one more item
    of the section list (':' counts as a list separator) -- the evidence is
    the exact shape [(sec, rest), (number, rest)] of the result.
    """
    tr = G.gen_twprge(rng, True)
    a = rng.randint(1, 99)
    n = rng.choice([x for x in range(1, 100) if x != a])
    rest = rng.choice(['acres in the NE/4', 'acres, more or less',
                       'foot strip along the fence',
                       'acres, being Lots 1 and 2'])
    blk = f"{n} {rest}"
    word = rng.choice(G.SEC_WORDS)
    text = (f"{G.render_twprge(tr, rng.choice(G.TWPRGE_SPELLINGS))}"
            f"{rng.choice([' ', ', ', chr(10)])}{word} {a}: {blk}")
    short = G.short_twprge(tr)
    exp = [[f"{short}{a:02d}", blk]]
    case = {'numlead': True, 'text': text, 'expected': exp}
    ctx.case([text, 'numlead'], True, shape='numlead|TRS_desc',
             sample={'text': text, 'expected': exp})
    ctx.hit('numlead')
    with ctx.guard(case):
        d = pytrs.PLSSDesc(text)
        got = [[t.trs, t.desc] for t in d.tracts]
        if got != exp or d.e_flags:
            joined = (got == [[f"{short}{a:02d}", rest],
                              [f"{short}{n:02d}", rest]] and not d.e_flags)
            ctx.violation('tracts-differ', case,
                          f"expected {exp} got {got} (e_flags {d.e_flags})",
                          dedup=f"numlead|{joined}", numlead_joined=joined)


def _skeleton_cases(seps):
    trs = [(154, 'n', 97, 'w'), (7, 's', 2, 'e')]
    blocks = [['NE/4', 'Lots 1 - 3, S/2NW/4'], ['That part lying above the river', 'ALL']]
    secgroups = [[([14], None), ([15, 16, 17], 'thru')], [([1, 36], 'and'), ([9], None)]]
    for layout, sp, word, sep in itertools.product(
            G.LAYOUTS, G.TWPRGE_SPELLINGS, G.SEC_WORDS, seps):
        parts, exp = [], []
        for gi, tr in enumerate(trs):
            trtxt = G.render_twprge(tr, sp)
            ents = []
            for si, (nums, kind) in enumerate(secgroups[gi]):
                blk = blocks[gi][si]
                if kind is None:
                    stxt = f"{word} {nums[0]}"
                elif kind == 'and':
                    stxt = f"{word} {nums[0]} and {nums[1]}"
                else:
                    stxt = f"{word} {nums[0]} - {nums[-1]}"
                for n in nums:
                    exp.append([f"{G.short_twprge(tr)}{n:02d}", blk])
                if layout in ('TRS_desc', 'S_desc_TR'):
                    ents.append(f"{stxt}: {blk}")
                else:
                    ents.append(f"{blk} of {stxt}")
            body = sep.join(ents)
            if layout == 'TRS_desc':
                parts.append(f"{trtxt} {body}")
            elif layout == 'TR_desc_S':
                parts.append(f"{trtxt}\n{body}")
            else:
                parts.append(f"{body}, {trtxt}")
        gsep = '\n' if sep.strip() == '' else sep
        yield {'text': gsep.join(parts), 'layout': layout, 'expected': exp,
               'shape': {'layout': layout, 'groups': 2, 'multi': True,
                         'spelling': sp, 'sep': sep, 'word': word,
                         'skeleton': True}}


def _setup(ctx):
    import pytrs
    from ..monitors import plss_hooks
    rec = plss_hooks.install(ctx, scrubbers=False)
    return pytrs, rec


def run_shard(shard, ctx):
    pytrs, rec = _setup(ctx)
    if shard['family'] == 'skeleton':
        for case in _skeleton_cases(shard['seps']):
            check_case(case, ctx, rec, pytrs)
        return
    rng = ctx.rng('random', shard['i'])
    for _ in range(shard['n']):
        if rng.random() < 0.03:
            check_numlead(rng, ctx, pytrs)
            continue
        check_case(G.gen_case(rng), ctx, rec, pytrs)


def replay(case, ctx):
    pytrs, rec = _setup(ctx)
    if case.get('numlead'):
        d = pytrs.PLSSDesc(case['text'])
        got = [[t.trs, t.desc] for t in d.tracts]
        ctx.case([case['text'], 'numlead'], True, shape='numlead|TRS_desc')
        ctx.hit('numlead')
        if got != case['expected'] or d.e_flags:
            ctx.violation('tracts-differ', case,
                          f"expected {case['expected']} got {got}")
        return
    check_case(case, ctx, rec, pytrs)


def classify(v):
    """'number-leading-block-joins-section-list': see check_numlead."""
    if v.get('kind') == 'tracts-differ' and v.get('numlead_joined'):
        return 'number-leading-block-joins-section-list'
    return None


MANIFEST_TEXT = (
    "Held (up to the recorded finding: a block that begins with a number "
    "joins the section list in front of it) on every generated description "
    "observed: thousands (quick) to "
    "~130k (thorough) abstract descriptions rendered in the four documented "
    "layouts with random documented spellings, connectors and separators, "
    "compared tract-by-tract with an independent expansion model, plus the "
    "pretty_desc round trip; a fixed 2x2 skeleton is enumerated over every "
    "layout x spelling x section word (x separator in thorough). Exploration "
    "only: renderings outside the documented connectors are not judged.")
LEVEL_NOTE = (
    "Trusts the expansion model in pv/gen/plss.py and the block precondition "
    "regexes in pv/gen/blocks.py; internal hooks (deduce_layout, marker walk) "
    "are used for witnesses, not for the verdict.")
TECHNIQUE = ("reference-model monitor at the API boundary (expand(abstract) vs "
             "PLSSDesc.tracts) with observation hooks on the marker walk; "
             "metamorphic pretty_desc round trip")
