"""C18 -- filter/group operations partition; containers never drop silently."""

import itertools

import icontract

from ..common import short
from ..oracles import trs as O

PROP = 'C18'
RULE = (
    "Lists of 0-10 Tract / TRS elements with repeated instances, equal TRS, "
    "error / undefined / partially undefined TRS, parsed and unparsed tracts "
    "with equal and different descriptions. (1) filter(predicate), "
    "filter_errors(twp, rge, sec, undef), filter_duplicates(method in "
    "{default, instance, trs, desc, lots_qqs}) x drop in {False, True}: "
    "returned == model selection in original order; with drop the rest "
    "stays in order (returned + remaining is the original, by identity); "
    "without drop the list is unchanged. (2) group_by / group_by_nested over "
    "attribute lists of length 1-3: groups partition the list, key == "
    "attribute value(s), order preserved, unpack_group returns the same "
    "elements. (3) construction through __init__, extend, +=, +, insert, "
    "append, __setitem__, from_multiple (nested) from iterables mixing "
    "acceptable and foreign elements (str, int, None, PLSSDesc, nested lists, "
    "generators): every supplied element present in order (converted to TRS "
    "for a TRSList) or TypeError. icontract contracts: _new_list_from_self "
    "conserves identities, _verify_iterable keeps every element or raises, "
    "class invariants 'all elements are Tract' / 'all are TRS'. Non-trivial: "
    ">= 3 elements, or a foreign element. Distinct by (elements, operation)."
)
ASSUMPTIONS = [
    "A PLSSDesc among the supplied elements may either contribute its "
    "tracts (their TRS for a TRSList) or raise TypeError.",
    "For a TRSList 'the same instance' means an equal TRS (TRS objects "
    "compare and hash by their string, C12).",
    "unpack_group must return the same elements; their order is not judged.",
]
MIN_NONTRIVIAL = {'quick': 6000, 'thorough': 150000}
REQUIRED_MONITORS = ['filter', 'filter_errors', 'filter_errors:PLSSDesc', 'filter_duplicates',
                     'group_by', 'group_by_nested', 'construct',
                     'contract:_new_list_from_self',
                     'contract:_verify_iterable', 'invariant:TractList',
                     'invariant:TRSList']

TRS_POOL = ['154n97w14', '154n97w15', '155n97w14', '154n96w01', '1s2e03',
            'XXXzXXXzXX', '___z___z__', '154nXXXz14', 'XXXz97w14',
            '154n97wXX', '154n97w__', '___z97w14', '154n___z14',
            # one component an error, another undefined
            'XXXz97w__', '___z___zXX', '___zXXXz14', 'XXXz___z__',
            '154nXXXz__', '___z97wXX']
DESCS = ['NE/4', 'Northeast Quarter', 'Lots 1 - 3, S/2NE/4',
         'Lot 3, S/2NE/4, Lots 1, 2', 'W/2', 'foo',
         # the same lots / aliquots as above, some of them named twice
         'Lot 3, S/2NE/4, Lots 1 - 3', 'NE/4, NE/4NE/4', 'W/2, W/2']
ATTRS = ['twprge', 'twp', 'rge', 'sec', 'trs', 'twp_num', 'rge_ew', 'sec_num']
TRACT_ATTRS = ATTRS + ['desc', 'parse_complete', 'source', 'source']
# source tags are arbitrary hashable identifiers -- strings, tuples, numbers
SOURCES = [None, None, 'a', ('a',), ('a', 'b'), 0, 'b']


def plan(tier, seed):
    if tier == 'quick':
        return [{'family': 'ops', 'n': 1500, 'i': i} for i in range(8)]
    return [{'family': 'ops', 'n': 14000, 'i': i} for i in range(24)]


class ContainerBroken(Exception):
    pass


def install_contracts(ctx, rep):
    from pytrs.parser.containers import containers as C
    import pytrs

    def ids_before(self):
        return [id(x) for x in self._elements]

    def conserves_identities(self, indexes, drop, result, OLD):
        ctx.hit('contract:_new_list_from_self')
        took = [id(x) for x in result]
        exp = [OLD.ids[i] for i in indexes]
        if took != exp:
            rep.report('C18:_new_list_from_self-contract',
                       f"selected indexes {indexes} but the new list holds "
                       f"other elements", dedup='sel')
        left = [id(x) for x in self._elements]
        exp_left = ([x for i, x in enumerate(OLD.ids) if i not in set(indexes)]
                    if drop else OLD.ids)
        if left != exp_left:
            rep.report('C18:_new_list_from_self-contract',
                       f"after selecting {indexes} (drop={drop}) the list "
                       f"holds {len(left)} elements, expected "
                       f"{len(exp_left)} in original order", dedup='left')
        return True

    f = C._TRSTractList.__dict__['_new_list_from_self']
    f = icontract.ensure(conserves_identities, error=ContainerBroken)(f)
    f = icontract.snapshot(ids_before, name='ids')(f)
    C._TRSTractList._new_list_from_self = f

    raw = C._TRSTractList.__dict__['_verify_iterable'].__func__

    def snapshot_len(iterable):
        try:
            return len(iterable)
        except TypeError:
            return None

    def keeps_every_element(cls, iterable, into, result, OLD):
        ctx.hit('contract:_verify_iterable')
        if OLD.n is not None and into is None and len(result) != OLD.n:
            rep.report('C18:_verify_iterable-contract',
                       f"{cls.__name__}: {OLD.n} elements supplied, "
                       f"{len(result)} kept, no TypeError", dedup=cls.__name__)
        return True

    g = icontract.ensure(keeps_every_element, error=ContainerBroken)(raw)
    g = icontract.snapshot(snapshot_len, name='n')(g)
    C._TRSTractList._verify_iterable = classmethod(g)

    def all_tracts(self):
        ctx.hit('invariant:TractList')
        bad = [type(x).__name__ for x in self._elements
               if not isinstance(x, pytrs.Tract)]
        if bad:
            rep.report('C18:TractList-invariant',
                       f"TractList holds non-Tract elements: {bad[:3]}",
                       dedup='tl')
        return True

    def all_trs(self):
        ctx.hit('invariant:TRSList')
        bad = [type(x).__name__ for x in self._elements
               if not isinstance(x, pytrs.TRS)]
        if bad:
            rep.report('C18:TRSList-invariant',
                       f"TRSList holds non-TRS elements: {bad[:3]}",
                       dedup='trsl')
        return True

    icontract.invariant(all_tracts, error=ContainerBroken)(C.TractList)
    icontract.invariant(all_trs, error=ContainerBroken)(C.TRSList)


# -- element pools -------------------------------------------------------------

def make_elements(rng, pytrs, kind, n):
    """Returns (elements, spec) -- spec is JSON-able."""
    spec, els, made = [], [], []
    for _ in range(n):
        if made and rng.random() < 0.2:
            j = rng.randrange(len(made))         # repeated instance
            spec.append({'same_as': j})
            els.append(made[j])
            continue
        trs = rng.choice(TRS_POOL)
        if kind == 'tract':
            desc = rng.choice(DESCS)
            parsed = rng.random() < 0.6
            src = rng.randrange(len(SOURCES))
            spec.append({'trs': trs, 'desc': desc, 'parsed': parsed,
                         'source': src})
            e = pytrs.Tract(desc, trs=trs, parse_qq=parsed,
                            source=SOURCES[src])
        else:
            spec.append({'trs': trs})
            e = pytrs.TRS(trs)
        made.append(e)
        els.append(e)
    return els, spec


def rebuild(spec, pytrs, kind):
    els, made = [], []
    for s in spec:
        if 'same_as' in s:
            els.append(made[s['same_as']])
            continue
        if kind == 'tract':
            e = pytrs.Tract(s['desc'], trs=s['trs'], parse_qq=s['parsed'],
                            source=SOURCES[s.get('source', 0)])
        else:
            e = pytrs.TRS(s['trs'])
        made.append(e)
        els.append(e)
    return els


# -- models ---------------------------------------------------------------------

def model_errors(els, twp, rge, sec, undef):
    out = []
    for i, e in enumerate(els):
        d = O.decompose(e.trs)
        hit = ((twp and d['twp_err']) or (rge and d['rge_err'])
               or (sec and d['sec_err']))
        if undef:
            hit = hit or (twp and d['twp_undef']) or (rge and d['rge_undef']) \
                or (sec and d['sec_undef'])
        if hit:
            out.append(i)
    return out


def model_duplicates(els, method, kind):
    if method == 'default':
        method = 'instance' if kind == 'tract' else 'trs'
    seen_ids, seen_keys, out = set(), set(), []
    for i, e in enumerate(els):
        # "The same instance" -- for TRS objects, which compare and hash by
        # their string (C12), that is: an equal TRS.
        ident = id(e) if kind == 'tract' else e.trs
        dup = ident in seen_ids
        seen_ids.add(ident)
        key = None
        if method == 'trs':
            key = e.trs
        elif method == 'desc':
            key = (e.trs, e.pp_desc.strip()) if kind == 'tract' else e.trs
        elif method == 'lots_qqs':
            if kind == 'tract' and e.parse_complete:
                key = (e.trs, tuple(sorted(set(e.lots_qqs))))
        if key is not None:
            if key in seen_keys:
                dup = True
            seen_keys.add(key)
        if dup:
            out.append(i)
    return out


PREDICATES = {
    'sec14': lambda t: t.sec == '14',
    'north': lambda t: t.twp_ns == 'n',
    'none': lambda t: False,
    'all': lambda t: True,
    'num>154': lambda t: (t.twp_num or 0) > 154,
    'truthy-str': lambda t: t.rge_ew,      # bool-like, may be None / 'w'
}


def make_predicate(name):
    """Pure predicates from the table; 'every-other' and 'first-of-trs' are
    STATEFUL (their answer depends on how often / on what they were called
    before), so a filter that consults the predicate more than once per
    element is exposed. The model calls a fresh instance once per element."""
    if name == 'every-other':
        state = {'n': 0}

        def every_other(t):
            state['n'] += 1
            return state['n'] % 2 == 1
        return every_other
    if name == 'first-of-trs':
        seen = set()

        def first_of_trs(t):
            if t.trs in seen:
                return False
            seen.add(t.trs)
            return True
        return first_of_trs
    return PREDICATES[name]


PREDICATE_NAMES = sorted(PREDICATES) + ['every-other', 'first-of-trs']


def check_filter(case, els, lst, ctx, pytrs):
    op, drop = case['op'], case['drop']
    kind = case['kind']
    before = list(lst)
    if op == 'filter':
        ctx.hit('filter')
        res = lst.filter(make_predicate(case['pred']), drop=drop)
        mp = make_predicate(case['pred'])
        model = [i for i, e in enumerate(els) if mp(e)]
    elif op == 'filter_errors':
        ctx.hit('filter_errors')
        kw = case['kw']
        if kind == 'tract' and len(els) % 2:
            # the same through a description holding these tracts
            ctx.hit('filter_errors:PLSSDesc')
            holder = pytrs.PLSSDesc('foo')
            holder.tracts = lst
            res = holder.filter_errors(drop=drop, **kw)
        else:
            res = lst.filter_errors(drop=drop, **kw)
        model = model_errors(els, kw['twp'], kw['rge'], kw['sec'], kw['undef'])
    else:
        ctx.hit('filter_duplicates')
        res = lst.filter_duplicates(method=case['method'], drop=drop)
        model = model_duplicates(els, case['method'], kind)
    exp_sel = [id(els[i]) for i in model]
    if [id(x) for x in res] != exp_sel:
        ctx.violation(
            f'{op}-selection', case,
            f"{op} {case.get('pred') or case.get('kw') or case.get('method')} "
            f"on {[e.trs for e in els]} returned positions "
            f"{_positions(res, els)}, model {model}",
            dedup=str(case.get('pred') or case.get('method') or 'errors'))
        return
    if type(res) is not type(lst):
        ctx.violation(f'{op}-type', case, f"returned a {type(res).__name__}")
    exp_left = ([id(e) for i, e in enumerate(els) if i not in set(model)]
                if drop else [id(e) for e in els])
    if [id(x) for x in lst] != exp_left:
        ctx.violation(
            f'{op}-remaining', case,
            f"{op} drop={drop}: the list now holds positions "
            f"{_positions(lst, els)}, expected "
            f"{[i for i in range(len(els)) if not drop or i not in set(model)]}",
            dedup=f"{drop}")


def _positions(seq, els):
    pos = {}
    for i, e in enumerate(els):
        pos.setdefault(id(e), i)
    return [pos.get(id(x), '?') for x in seq]


def check_group(case, els, lst, ctx, pytrs):
    attrs = case['attrs']
    nested = case['nested']
    cls = type(lst)
    ctx.hit('group_by_nested' if nested else 'group_by')
    arg = attrs[0] if (len(attrs) == 1 and case['single_as_str']) else list(attrs)
    dct = lst.group_by_nested(arg) if nested else lst.group_by(arg)
    # Flatten to {key tuple: list}
    flat = {}

    def walk(d, prefix):
        for k, v in d.items():
            if isinstance(v, dict):
                walk(v, prefix + (k,))
            else:
                flat[prefix + (k,)] = v
    if nested:
        walk(dct, ())
    else:
        for k, v in dct.items():
            flat[k if isinstance(k, tuple) and len(attrs) > 1 else (k,)] = v
    exp = {}
    for e in els:
        key = tuple(getattr(e, a, f"{a}: n/a") for a in attrs)
        exp.setdefault(key, []).append(id(e))
    got = {k: [id(x) for x in v] for k, v in flat.items()}
    if got != exp:
        ctx.violation(
            'group-not-a-partition', case,
            f"{'group_by_nested' if nested else 'group_by'}({arg}) on "
            f"{[e.trs for e in els]}: groups "
            f"{ {k: _positions(v, els) for k, v in flat.items()} } differ from "
            f"the model ({len(exp)} groups)", dedup=f"{nested}|{len(attrs)}")
        return
    for v in flat.values():
        if type(v) is not cls:
            ctx.violation('group-type', case,
                          f"group value is a {type(v).__name__}")
            return
    if [id(x) for x in lst] != [id(e) for e in els]:
        ctx.violation('group-mutates', case, "grouping changed the list")
    un = cls.unpack_group(dct)
    if sorted(id(x) for x in un) != sorted(id(e) for e in els):
        ctx.violation('unpack_group', case,
                      f"unpack_group returned {len(un)} elements for "
                      f"{len(els)} grouped")


FOREIGN = ['foo', 5, None, 3.5, ('x',), {'a': 1}]


def check_construct(case, rng_unused, ctx, pytrs):
    """case: kind, path, items spec. Items: {'trs':..}|{'foreign': idx}|
    {'str': trs}|{'tract_for_trs': trs}|{'plssdesc': text}|{'nested': [...]}"""
    kind, path = case['kind'], case['path']
    ctx.hit('construct')
    cls = pytrs.TractList if kind == 'tract' else pytrs.TRSList

    def build(items):
        out, exp, foreign, soft = [], [], False, False
        for it in items:
            if 'foreign' in it:
                obj = FOREIGN[it['foreign']]
                out.append(obj)
                if kind == 'trs' and isinstance(obj, str):
                    # any str is acceptable to a TRSList (-> error TRS)
                    exp.append(('trs', pytrs.TRS(obj).trs))
                elif kind == 'trs' and path == 'from_multiple' \
                        and isinstance(obj, (tuple, dict)):
                    # from_multiple unpacks any list-like object: a tuple /
                    # dict of str's contributes those str's.
                    exp.extend(('trs', pytrs.TRS(x).trs) for x in obj)
                else:
                    foreign = True
            elif 'plssdesc' in it:
                d = pytrs.PLSSDesc(it['plssdesc'])
                out.append(d)
                soft = True       # its tracts included, or TypeError
                if kind == 'tract':
                    exp.extend(('id', id(t)) for t in d.tracts)
                else:
                    exp.extend(('trs', t.trs) for t in d.tracts)
            elif 'nested' in it:
                sub, subexp, f, s = build(it['nested'])
                out.append(sub)
                exp.extend(subexp)
                foreign = foreign or f
                soft = soft or s
            elif kind == 'tract':
                if 'str' in it:
                    out.append(it['str'])
                    foreign = True
                else:
                    t = pytrs.Tract('NE/4', trs=it['trs'])
                    out.append(t)
                    exp.append(('id', id(t)))
            else:
                if 'str' in it:
                    out.append(it['str'])
                    exp.append(('trs', pytrs.TRS(it['str']).trs))
                elif 'tract_for_trs' in it:
                    out.append(pytrs.Tract('x', trs=it['tract_for_trs']))
                    exp.append(('trs', pytrs.TRS(it['tract_for_trs']).trs))
                else:
                    o = pytrs.TRS(it['trs'])
                    out.append(o)
                    exp.append(('id', id(o)))
        return out, exp, foreign, soft

    items, exp, foreign, soft = build(case['items'])
    nested = any('nested' in it for it in case['items'])
    base_t = pytrs.Tract('W/2', trs='1n1w01')
    base = [base_t] if kind == 'tract' else [pytrs.TRS('1n1w01')]
    base_exp = [('id', id(base[0]))]
    raised = None
    try:
        if path == 'init':
            lst = cls(items)
            full = exp
        elif path == 'init-generator':
            lst = cls(x for x in items)
            full = exp
        elif path == 'extend':
            lst = cls(base)
            lst.extend(items)
            full = base_exp + exp
        elif path == 'iadd':
            lst = cls(base)
            lst += items
            full = base_exp + exp
        elif path == 'add':
            lst = cls(base) + items
            full = base_exp + exp
        elif path == 'append':
            lst = cls(base)
            for x in items:
                lst.append(x)
            full = base_exp + exp
        elif path == 'insert':
            lst = cls(base)
            for k, x in enumerate(items):
                lst.insert(k, x)
            full = exp + base_exp
        elif path == 'setitem':
            lst = cls(base * max(1, len(items)))
            for k, x in enumerate(items):
                lst[k] = x
            full = exp if items else base_exp
        elif path == 'from_multiple':
            lst = cls.from_multiple(*items)
            full = exp
        else:
            raise ValueError(path)
    except TypeError as e:
        raised = e
    except RecursionError as e:
        ctx.violation('construct-wrong-exception', case,
                      f"{cls.__name__} via {path} with a foreign element "
                      f"raised RecursionError instead of TypeError",
                      dedup=path)
        return
    flat_only = path not in ('from_multiple',)
    if nested and flat_only:
        foreign = True     # a nested list is itself a foreign element
    if raised is not None:
        if not (foreign or soft):
            ctx.violation('construct-rejects-acceptable', case,
                          f"{cls.__name__} via {path}: TypeError({raised}) "
                          f"although every element is acceptable",
                          dedup=path)
        return
    if foreign:
        ctx.violation(
            'construct-drops-silently', case,
            f"{cls.__name__} via {path} was given a foreign element and "
            f"neither raised TypeError nor kept it: holds "
            f"{[type(x).__name__ for x in lst][:8]} of "
            f"{short(repr(case['items']), 160)}", dedup=f"{kind}|{path}")
        return
    got = []
    for x in lst:
        got.append(x)
    if soft and kind == 'tract':
        # PLSSDesc given to a TractList: its tracts must then all be there.
        pass
    ok = len(got) == len(full)
    if ok:
        for g, (how, val) in zip(got, full):
            if how == 'id' and id(g) != val:
                ok = False
            if how == 'trs' and not (isinstance(g, pytrs.TRS) and g.trs == val):
                ok = False
    if not ok:
        ctx.violation(
            'construct-content', case,
            f"{cls.__name__} via {path}: holds "
            f"{[getattr(x, 'trs', repr(x)) for x in got][:10]} "
            f"({[type(x).__name__ for x in got][:6]}), expected "
            f"{len(full)} elements in the supplied order",
            dedup=f"{kind}|{path}")


def gen_items(rng, kind, depth=0):
    items = []
    for _ in range(rng.randint(0, 4)):
        r = rng.random()
        if r < 0.12:
            items.append({'foreign': rng.randrange(len(FOREIGN))})
        elif r < 0.18:
            items.append({'plssdesc': 'T154N-R97W Sec 14: NE/4, Sec 15: W/2'})
        elif r < 0.28 and depth < 2:
            items.append({'nested': gen_items(rng, kind, depth + 1)})
        elif r < 0.45:
            items.append({'str': rng.choice(TRS_POOL)})
        elif r < 0.6 and kind == 'trs':
            items.append({'tract_for_trs': rng.choice(TRS_POOL)})
        else:
            items.append({'trs': rng.choice(TRS_POOL)})
    return items


def check_cross_container(case, ctx, pytrs):
    """One pyTRS container given to the other kind: a TRSList takes the
    tracts of a TractList converted to TRS objects, in order; a TractList
    given a TRSList raises TypeError -- by every construction path."""
    trs_a, trs_b, path = case['a'], case['b'], case['path']
    ctx.hit('cross-container')
    base_r, base_t = pytrs.TRS('1n1w01'), pytrs.Tract('W/2', trs='1n1w01')
    tl = pytrs.TractList([pytrs.Tract('NE/4', trs=x) for x in trs_a])
    rl = pytrs.TRSList(trs_b)

    def build(cls, base, other):
        if path == 'init':
            return cls(other), []
        lst = cls([base])
        if path == 'extend':
            lst.extend(other)
        elif path == 'iadd':
            lst += other
        elif path == 'add':
            lst = lst + other
        elif path == 'from_multiple':
            return cls.from_multiple([base], other), [base]
        return lst, [base]
    # TRSList <- TractList
    got, head = build(pytrs.TRSList, base_r, tl)
    want = [x.trs for x in head] + [pytrs.TRS(x).trs for x in trs_a]
    if [getattr(x, 'trs', None) for x in got] != want \
            or not all(isinstance(x, pytrs.TRS) for x in got):
        ctx.violation('construct-content', case,
                      f"TRSList via {path} given a TractList holds "
                      f"{[type(x).__name__ for x in got]} "
                      f"{[getattr(x, 'trs', x) for x in got]}, expected TRS "
                      f"objects {want}", dedup=f"cross|trs|{path}")
    # TractList <- TRSList
    if not trs_b:
        return
    try:
        got, _ = build(pytrs.TractList, base_t, rl)
    except TypeError:
        return
    ctx.violation('construct-drops-silently', case,
                  f"TractList via {path} given a TRSList raised nothing and "
                  f"holds {[type(x).__name__ for x in got]}",
                  dedup=f"cross|tract|{path}")


def run_case(case, ctx, rep, pytrs):
    rep.set_case(case)
    kind = case['kind']
    if case['op'] == 'cross-container':
        ctx.case(case, True, shape=f"cross-container|{case['path']}",
                 sample=case)
        with ctx.guard(case):
            check_cross_container(case, ctx, pytrs)
        return
    with ctx.guard(case):
        if case['op'] == 'construct':
            ctx.case(case, True, shape=f"construct|{kind}|{case['path']}",
                     sample=case)
            check_construct(case, None, ctx, pytrs)
            return
        els = rebuild(case['spec'], pytrs, kind)
        lst = (pytrs.TractList if kind == 'tract' else pytrs.TRSList)(els)
        ctx.case(case, len(els) >= 3, shape=f"{case['op']}|{kind}",
                 sample={k: v for k, v in case.items() if k != 'spec'}
                 | {'elements': [s.get('trs', s) for s in case['spec']]})
        if len(lst) != len(els):
            ctx.violation('construct-content', case,
                          "constructor dropped acceptable elements")
            return
        if case['op'] in ('filter', 'filter_errors', 'filter_duplicates'):
            check_filter(case, els, lst, ctx, pytrs)
        else:
            check_group(case, els, lst, ctx, pytrs)


def gen_case(rng, pytrs):
    kind = rng.choice(['tract', 'tract', 'trs'])
    r = rng.random()
    if r < 0.04:
        return {'op': 'cross-container', 'kind': kind,
                'a': [rng.choice(TRS_POOL) for _ in range(rng.randint(0, 4))],
                'b': [rng.choice(TRS_POOL) for _ in range(rng.randint(0, 4))],
                'path': rng.choice(['init', 'extend', 'iadd', 'add',
                                    'from_multiple'])}
    if r < 0.3:
        return {'op': 'construct', 'kind': kind,
                'path': rng.choice(['init', 'init-generator', 'extend', 'iadd',
                                    'add', 'append', 'insert', 'setitem',
                                    'from_multiple', 'from_multiple']),
                'items': gen_items(rng, kind)}
    _, spec = make_elements(rng, pytrs, kind, rng.randint(0, 10))
    case = {'kind': kind, 'spec': spec, 'drop': rng.random() < 0.5}
    if r < 0.45:
        case.update(op='filter', pred=rng.choice(PREDICATE_NAMES))
    elif r < 0.6:
        case.update(op='filter_errors',
                    kw={'twp': rng.random() < 0.7, 'rge': rng.random() < 0.7,
                        'sec': rng.random() < 0.7, 'undef': rng.random() < 0.4})
    elif r < 0.8:
        methods = ['default', 'trs', 'desc', 'lots_qqs', 'instance']
        case.update(op='filter_duplicates', method=rng.choice(methods))
    else:
        pool = TRACT_ATTRS if kind == 'tract' else ATTRS
        n = rng.choice([1, 1, 2, 2, 3])
        case.update(op='group', attrs=rng.sample(pool, n),
                    nested=rng.random() < 0.5,
                    single_as_str=rng.random() < 0.5)
    return case


def _setup(ctx):
    import pytrs
    import warnings
    from ..monitors.core import Reporter
    warnings.simplefilter('ignore')
    rep = Reporter(ctx)
    install_contracts(ctx, rep)
    return pytrs, rep


def run_shard(shard, ctx):
    pytrs, rep = _setup(ctx)
    rng = ctx.rng(shard['family'], shard['i'])
    for _ in range(shard['n']):
        run_case(gen_case(rng, pytrs), ctx, rep, pytrs)


def replay(case, ctx):
    pytrs, rep = _setup(ctx)
    run_case(case, ctx, rep, pytrs)


MANIFEST_TEXT = (
    "Held on every operation observed: 12k (quick) / ~340k (thorough) random "
    "filter / filter_errors / filter_duplicates / group_by / group_by_nested "
    "/ construction operations on lists with repeated instances, equal, error "
    "and undefined TRS, compared by identity with independent selection and "
    "partition models; icontract contracts on _new_list_from_self and "
    "_verify_iterable and class invariants on TractList / TRSList run on "
    "every call. Exploration.")
LEVEL_NOTE = ("Trusts the selection / duplicate / grouping models in "
              "pv/props/c18.py and pv/oracles/trs.py.")
TECHNIQUE = ("reference-model monitor (partition / selection models by "
             "object identity) + runtime contracts and class invariants "
             "(icontract) on the container internals")
