"""C13 -- configuration round-trips and has a single precedence order."""

import inspect

from ..common import short
from ..gen import configs as CF
from ..gen import plss as G

PROP = 'C13'
RULE = (
    "(a) round trip: random valid assignments of the 16 settings rendered as "
    "config text in varied spelling/order -> Config -> decompile_to_text -> "
    "Config: all 16 attributes equal; Config.from_dict agrees; unknown "
    "setting names raise ValueError. (b) channels, PLSSDesc: for every "
    "setting S, every legal value v and every witness description on which "
    "S makes a difference (colon-less sections, bare 'NE', missing "
    "directions, N/2NE/4NE/4, lot divisions, two-layout text, embedded "
    "section, OCR digits, forced layouts) plus random C01 descriptions: "
    "A = config string at creation, B = .config assigned on a wait_to_parse "
    "object then parse(), C = keyword to parse(); K = keyword v over a config "
    "string holding another value; M = config v over a contrary MasterConfig "
    "(directions). The tracts (trs, desc, lots, qqs), the flag multisets and "
    "the normalised effective parameters recorded at PLSSParser.__init__ / "
    "TractParser.__init__ must agree across channels. (c) the same for Tract "
    "(config at creation, assignment, parse() keywords; from_twprgesec for "
    "directions). (d) random pairs / full assignments through A, B, C. "
    "Non-trivial: every channel comparison. Distinct by (setting(s), values, "
    "description, comparison)."
)
ASSUMPTIONS = [
    "Effective parameters are compared after normalisation to their meaning "
    "(qq_depth folded into (min, max); the two colon settings folded into "
    "require_colon; tract-level settings compared where they take effect, at "
    "TractParser).",
    "Channel B uses one assignment; the only cross-setting conflict judged "
    "is the documented one (a qq_depth_min/max keyword makes a configured "
    "qq_depth be ignored; a qq_depth keyword overrides configured min/max).",
]
MIN_NONTRIVIAL = {'quick': 3000, 'thorough': 60000}
REQUIRED_MONITORS = ['config-object-vs-text', 'channel:ocr-precedence', 'bool-setting-odd-value', 'roundtrip', 'unknown-name', 'wait_to_parse',
                     'channel:bulk', 'channel:layout-over-copy_all',
                     'channel:A=C-reparsed',
                     'unknown-name:config-attribute', 'channel:A=B', 'channel:A=C',
                     'channel:split', 'channel:cross',
                     'channel:shared-config-object',
                     'channel:K', 'channel:M', 'tract:A=B', 'tract:A=C',
                     'hook:PLSSParser.__init__', 'hook:TractParser.__init__']

VALUES = {
    'default_ns': ['n', 's'], 'default_ew': ['e', 'w'],
    'layout': ['TRS_desc', 'desc_STR', 'copy_all', 'S_desc_TR', 'TR_desc_S'],
    'parse_qq': [True, False], 'clean_qq': [True, False],
    'sec_colon_required': [True, False], 'sec_colon_cautious': [True, False],
    'suppress_lot_divs': [True, False], 'ocr_scrub': [True, False],
    'segment': [True, False], 'qq_depth': [1, 2, 3], 'qq_depth_min': [1, 2, 3],
    'qq_depth_max': [2, 3, 4], 'break_halves': [True, False],
    'sec_within': [True, False],
}
# aliquots whose standard form differs from the written components (halves
# on crossing axes merge into a quarter, a quarter in front of a half)
ODD_ALIQUOTS = 'T154N-R97W Sec 14: W/2N/2, SE/4W/2, N/2E/2NE/4, S/2N/2E/2'
WITNESS = {
    'default_ns': ['T154-R97 Sec 14: NE/4', 'T154-R97W Sec 14: NE/4'],
    'default_ew': ['T154-R97 Sec 14: NE/4', 'T154N-R97 Sec 14: NE/4'],
    'layout': ['T154N-R97W Sec 14: NE/4 of Sec 3',
               'NE/4 of Sec 14, T154N-R97W'],
    'parse_qq': ['T154N-R97W Sec 14: NE/4, Lot 1'],
    'clean_qq': ['T154N-R97W Sec 14: NE', 'T154N-R97W Sec 14: the NE, Lot 2'],
    'sec_colon_required': ['T154N-R97W Sec 14 NE/4, Sec 15: W/2',
                           'T154N-R97W Sec 14 NE/4'],
    'sec_colon_cautious': ['T154N-R97W Sec 14 NE/4, Sec 15: W/2',
                           'T154N-R97W Sec 14 NE/4'],
    'suppress_lot_divs': ['T154N-R97W Sec 14: N/2 of Lot 1, Lot 2'],
    'ocr_scrub': ['TIS4N-R97W Sec 14: NE/4', 'T1O4N-RS7W Sec 1: ALL'],
    'segment': ['T154N-R97W Sec 14: NE/4; W/2 of Sec 3, T155N-R97W',
                'Situated in Dunn County, T154N-R97W Sec 14: NE/4'],
    'qq_depth': ['T154N-R97W Sec 14: N/2NE/4NE/4', ODD_ALIQUOTS],
    'qq_depth_min': ['T154N-R97W Sec 14: N/2NE/4NE/4',
                     'T154N-R97W Sec 14: NE/4', ODD_ALIQUOTS],
    'qq_depth_max': ['T154N-R97W Sec 14: N/2NE/4NE/4', ODD_ALIQUOTS],
    'break_halves': ['T154N-R97W Sec 14: N/2NE/4NE/4, E/2W/2SE/4',
                     ODD_ALIQUOTS],
    'sec_within': ['That part of the NE/4 of Sec 14 of T154N-R97W lying north '
                   'of the river'],
}
COMPOSITE = 'T154-R97 Sec 14 NE, N/2 of Lot 1, Sec 15: W/2'
TRACT_WITNESS = 'N/2 of Lot 1, NE, N/2NE/4NE/4, Lots 3, 3'
PKW = set(CF.PLSS_PARSE_KEYWORDS)
TKW = set(CF.TRACT_PARSE_KEYWORDS)
UNKNOWN = ['foo', 'cleanqq', 'parse_q', 'depth.2', 'north', 'segmented',
           'qq_depth_mid.2', 'default_nw.n', 'x', 'copy-all', 'trs_desc',
           'secwithin', 'ocrscrub.True']


def plan(tier, seed):
    if tier == 'quick':
        return ([{'family': 'single'}, {'family': 'tract'}]
                + [{'family': 'roundtrip', 'n': 1500, 'i': 0}]
                + [{'family': 'multi', 'n': 150, 'i': i} for i in range(6)])
    return ([{'family': 'single'}, {'family': 'tract'}, {'family': 'pairs'}]
            + [{'family': 'roundtrip', 'n': 20000, 'i': i} for i in range(4)]
            + [{'family': 'single-random', 'n': 40, 'i': i} for i in range(12)]
            + [{'family': 'multi', 'n': 1500, 'i': i} for i in range(16)])


# -- effective-parameter recording -----------------------------------------

class EffLog:
    def __init__(self):
        self.plss = []
        self.tract = []

    def reset(self):
        self.plss, self.tract = [], []

    def norm(self, master):
        p = []
        for d in self.plss:
            layout = d.get('layout')
            seg = bool(d.get('segment')) and layout != 'copy_all'
            p.append((layout, d.get('default_ns') or master[0],
                      d.get('default_ew') or master[1],
                      bool(d.get('ocr_scrub')), str(d.get('require_colon')),
                      seg, bool(d.get('sec_within')), bool(d.get('parse_qq'))))
        t = []
        for d in self.tract:
            mn, mx = d.get('qq_depth_min'), d.get('qq_depth_max')
            if d.get('qq_depth') is not None:
                mn = mx = d['qq_depth']
            t.append((bool(d.get('clean_qq')), bool(d.get('suppress_lot_divs')),
                      mn, mx, bool(d.get('break_halves'))))
        return p, sorted(t, key=repr)


def install_hooks(ctx):
    from pytrs.parser.plssdesc import plss_parse as PP
    from pytrs.parser.tract import tract_parse as TP
    from ..monitors import core
    log = EffLog()
    sig_p = inspect.signature(PP.PLSSParser.__dict__['__init__'])
    sig_t = inspect.signature(TP.TractParser.__dict__['__init__'])

    def before_p(args, kwargs):
        ctx.hit('hook:PLSSParser.__init__')
        ba = sig_p.bind(*args, **kwargs)
        ba.apply_defaults()
        d = dict(ba.arguments)
        for k in ('self', 'text', 'handed_down_config', 'source'):
            d.pop(k, None)
        log.plss.append(d)
    core.wrap_method(PP.PLSSParser, '__init__', before_p, None)

    def before_t(args, kwargs):
        ctx.hit('hook:TractParser.__init__')
        ba = sig_t.bind(*args, **kwargs)
        ba.apply_defaults()
        d = dict(ba.arguments)
        for k in ('self', 'text', 'parent'):
            d.pop(k, None)
        log.tract.append(d)
    core.wrap_method(TP.TractParser, '__init__', before_t, None)
    return log


def outcome(tracts, d, log, master):
    res = [(t.trs, t.desc, tuple(t.lots), tuple(t.qqs)) for t in tracts]
    fl = (sorted(map(str, d.w_flags)), sorted(map(str, d.e_flags))) \
        if d is not None else None
    return {'tracts': res, 'flags': fl, 'eff': log.norm(master)}


def diff(a, b):
    for k in ('tracts', 'flags', 'eff'):
        if a[k] != b[k] and a[k] is not None and b[k] is not None:
            return f"{k}: {short(repr(a[k]), 260)} vs {short(repr(b[k]), 260)}"
    return None


# -- PLSSDesc channels ------------------------------------------------------

def run_plss(st, desc, ctx, log, pytrs, label):
    """Compare channels for the assignment ``st`` on ``desc``."""
    MC = pytrs.MasterConfig
    master = (MC.default_ns, MC.default_ew)
    full = dict(st)
    full.setdefault('parse_qq', True)
    cfg = CF.to_text(full)
    case = {'kind': 'plss', 'settings': st, 'desc': desc, 'label': label}

    def rec(name):
        ctx.case([st, desc, name], True, shape=f"plss|{name}|{label}",
                 sample={'settings': st, 'desc': short(desc, 100),
                         'comparison': name})
        ctx.hit(f'channel:{name}')

    with ctx.guard(case):
        log.reset()
        a = pytrs.PLSSDesc(desc, config=cfg)
        A = outcome(a.tracts, a, log, master)
        # B: assignment before parsing
        log.reset()
        b = pytrs.PLSSDesc(desc, wait_to_parse=True)
        b.config = cfg
        b.parse()
        B = outcome(b.tracts, b, log, master)
        rec('A=B')
        why = diff(A, B)
        if why:
            ctx.violation('channel-mismatch:config-vs-assignment', case,
                          f"{st} on {desc!r}: {why}",
                          dedup='|'.join(sorted(st)))
        # C: keywords
        kw = {k: v for k, v in full.items() if k in PKW}
        rest = {k: v for k, v in full.items() if k not in PKW}
        if kw and set(st) & PKW:
            log.reset()
            c = pytrs.PLSSDesc(desc, config=CF.to_text(rest) or None,
                               wait_to_parse=True)
            r = c.parse(**kw)
            C = outcome(r, c, log, master)
            rec('A=C')
            why = diff(A, C)
            if why:
                ctx.violation('channel-mismatch:config-vs-keyword', case,
                              f"{st} on {desc!r}: {why}",
                              dedup='|'.join(sorted(st)))
            # C2: the keywords given to an object that was already parsed
            # (at creation, with the rest of the settings)
            c2 = pytrs.PLSSDesc(desc, config=CF.to_text(rest) or None)
            log.reset()
            r2 = c2.parse(**kw)
            C2 = outcome(r2, c2, log, master)
            ctx.hit('channel:A=C-reparsed')
            why = diff(A, C2)
            if why:
                ctx.violation('channel-mismatch:config-vs-keyword', case,
                              f"{st} on {desc!r} (keywords to an object "
                              f"already parsed at creation): {why}",
                              dedup='reparsed|' + '|'.join(sorted(st)))
            # K: keyword over a contrary config string
            other = {}
            for k, v in st.items():
                if k in PKW and k in VALUES:
                    alts = [x for x in VALUES[k] if x != v]
                    if k == 'qq_depth_max':
                        alts = [x for x in alts
                                if x >= full.get('qq_depth_min', 2)]
                    if k == 'qq_depth_min' and 'qq_depth_max' in full:
                        alts = [x for x in alts if x <= full['qq_depth_max']]
                    if alts:
                        other[k] = alts[0]
            if other:
                contrary = dict(rest)
                contrary.update(other)
                contrary.setdefault('parse_qq', True)
                log.reset()
                k_ = pytrs.PLSSDesc(desc, config=CF.to_text(contrary),
                                    wait_to_parse=True)
                r = k_.parse(**kw)
                K = outcome(r, k_, log, master)
                rec('K')
                why = diff(A, K)
                if why:
                    ctx.violation(
                        'precedence:keyword-must-win-over-config', case,
                        f"keyword {kw} over config "
                        f"{CF.to_text(contrary)!r} on {desc!r}: {why}",
                        dedup='|'.join(sorted(st)))
        # S: the assignment split between config string and keywords.
        kwable = sorted(k for k in full if k in PKW)
        if len(kwable) >= 2:
            import random as _random
            r_ = _random.Random(repr((st, desc)))
            pick = set(r_.sample(kwable, r_.randint(1, len(kwable) - 1)))
            kw_s = {k: v for k, v in full.items() if k in pick}
            cfg_s = {k: v for k, v in full.items() if k not in pick}
            log.reset()
            s_ = pytrs.PLSSDesc(desc, config=CF.to_text(cfg_s) or None,
                                wait_to_parse=True)
            r = s_.parse(**kw_s)
            S = outcome(r, s_, log, master)
            rec('split')
            why = diff(A, S)
            if why:
                ctx.violation(
                    'channel-mismatch:settings-split-between-config-and-'
                    'keywords', case,
                    f"config {CF.to_text(cfg_s)!r} + keywords {kw_s} vs all "
                    f"in config ({cfg!r}) on {desc!r}: {why}",
                    dedup='|'.join(sorted(st)))
        # M: config over a contrary MasterConfig
        if 'default_ns' in st or 'default_ew' in st:
            saved = (MC.default_ns, MC.default_ew)
            try:
                if 'default_ns' in st:
                    MC.default_ns = 's' if st['default_ns'] == 'n' else 'n'
                if 'default_ew' in st:
                    MC.default_ew = 'e' if st['default_ew'] == 'w' else 'w'
                log.reset()
                m = pytrs.PLSSDesc(desc, config=cfg)
                M = outcome(m.tracts, m, log, (MC.default_ns, MC.default_ew))
            finally:
                MC.default_ns, MC.default_ew = saved
            rec('M')
            if A['tracts'] != M['tracts']:
                ctx.violation('precedence:config-must-win-over-MasterConfig',
                              case, f"{st} on {desc!r}: {A['tracts']} vs "
                              f"under contrary MasterConfig {M['tracts']}",
                              dedup='|'.join(sorted(st)))
        else:
            ctx.hit('channel:M', 0)


# -- Tract channels ---------------------------------------------------------

def run_tract(st, desc, ctx, log, pytrs):
    st = {k: v for k, v in st.items() if k in CF.TRACT_SETTINGS}
    if not st:
        return
    cfg = CF.to_text(st)
    case = {'kind': 'tract', 'settings': st, 'desc': desc}
    master = ('n', 'w')

    def out(t):
        return {'tracts': [(tuple(t.lots), tuple(t.qqs))],
                'flags': (sorted(t.w_flags), sorted(t.e_flags)),
                'eff': log.norm(master)}
    with ctx.guard(case):
        log.reset()
        a = pytrs.Tract(desc, config=cfg, parse_qq=True)
        A = out(a)
        log.reset()
        b = pytrs.Tract(desc)
        b.config = cfg
        b.parse()
        B = out(b)
        ctx.case([st, desc, 'tract:A=B'], True, shape='tract|A=B',
                 sample={'settings': st, 'desc': desc})
        ctx.hit('tract:A=B')
        why = diff(A, B)
        if why:
            ctx.violation('tract-channel-mismatch:config-vs-assignment', case,
                          f"{st} on {desc!r}: {why}",
                          dedup='|'.join(sorted(st)))
        kw = {k: v for k, v in st.items() if k in TKW}
        # No parse at creation in the keyword channels (a second committed
        # parse is C14's subject, not this property's).
        rest = {k: v for k, v in st.items()
                if k not in TKW and k != 'parse_qq'}
        if kw:
            log.reset()
            c = pytrs.Tract(desc, config=CF.to_text(rest) or None)
            c.parse(**kw)
            C = out(c)
            ctx.case([st, desc, 'tract:A=C'], True, shape='tract|A=C')
            ctx.hit('tract:A=C')
            why = diff(A, C)
            if why:
                ctx.violation('tract-channel-mismatch:config-vs-keyword',
                              case, f"{st} on {desc!r}: {why}",
                              dedup='|'.join(sorted(st)))
            other = {}
            for k, v in kw.items():
                alts = [x for x in VALUES[k] if x != v]
                if k == 'qq_depth_max':
                    alts = [x for x in alts if x >= st.get('qq_depth_min', 2)]
                if k == 'qq_depth_min' and 'qq_depth_max' in st:
                    alts = [x for x in alts if x <= st['qq_depth_max']]
                if alts:
                    other[k] = alts[-1]
            if other:
                contrary = dict(rest)
                contrary.update(other)
                log.reset()
                k_ = pytrs.Tract(desc, config=CF.to_text(contrary))
                k_.parse(**kw)
                K = out(k_)
                why = diff(A, K)
                if why:
                    ctx.violation(
                        'tract-precedence:keyword-must-win-over-config', case,
                        f"keyword {kw} over config {CF.to_text(contrary)!r} "
                        f"on {desc!r}: {why}", dedup='|'.join(sorted(st)))
        if 'default_ns' in st or 'default_ew' in st:
            ns = st.get('default_ns')
            ew = st.get('default_ew')
            x = pytrs.Tract.from_twprgesec('x', 154, 97, 14, config=cfg)
            y = pytrs.Tract.from_twprgesec('x', 154, 97, 14, default_ns=ns,
                                           default_ew=ew)
            z = pytrs.Tract.from_twprgesec('x', 154, 97, 14,
                                           config=pytrs.Config(cfg))
            if z.trs != x.trs:
                ctx.violation('tract-default-direction', case,
                              f"from_twprgesec via Config({cfg!r}) object -> "
                              f"{z.trs}, via the config text -> {x.trs}",
                              dedup='cfgobj')
            if x.trs != y.trs or x.trs != f"154{ns or 'n'}97{ew or 'w'}14":
                ctx.violation('tract-default-direction', case,
                              f"from_twprgesec via config {cfg!r} -> {x.trs}, "
                              f"via keywords -> {y.trs}")


# -- documented cross-setting rule ------------------------------------------------

def run_cross(rng, ctx, log, pytrs):
    """
    Documented in PLSSDesc.parse / Tract.parse: a qq_depth_min or qq_depth_max
    KEYWORD makes the parse ignore a configured qq_depth (the keyword wins
    over the config string, also across these three related settings); a
    qq_depth keyword overrides configured min / max.
    """
    depth = rng.choice([1, 2, 3])
    which = rng.choice(['qq_depth_min', 'qq_depth_max', 'both', 'depth-kw'])
    mn = rng.choice([1, 2, 3])
    mx = rng.choice([mn, mn + 1])
    if which == 'qq_depth_min':
        kw, expect = {'qq_depth_min': mn}, {'qq_depth_min': mn}
        cfg = {'qq_depth': depth}
    elif which == 'qq_depth_max':
        kw, expect = {'qq_depth_max': max(2, mx)}, {'qq_depth_max': max(2, mx)}
        cfg = {'qq_depth': depth}
    elif which == 'both':
        kw = {'qq_depth_min': mn, 'qq_depth_max': mx}
        expect = dict(kw)
        cfg = {'qq_depth': depth}
    else:
        kw, expect = {'qq_depth': depth}, {'qq_depth': depth}
        cfg = {'qq_depth_min': mn, 'qq_depth_max': mx}
    bh = rng.random() < 0.3
    if bh:
        cfg['break_halves'] = True
        expect['break_halves'] = True
    tdesc = rng.choice(['N/2NE/4NE/4, S/2', 'S/2N/2NW/4SW/4', 'N/2',
                        'NE/4, E/2W/2SE/4'])
    case = {'kind': 'cross', 'config': cfg, 'keywords': kw, 'desc': tdesc}
    ctx.case([cfg, kw, tdesc], True, shape=f"cross|{which}",
             sample={'config': cfg, 'keywords': kw, 'desc': tdesc})
    ctx.hit('channel:cross')
    with ctx.guard(case):
        ref = pytrs.Tract(tdesc, config=CF.to_text(expect), parse_qq=True)
        t = pytrs.Tract(tdesc, config=CF.to_text(cfg))
        t.parse(**kw)
        if t.qqs != ref.qqs:
            ctx.violation(
                'cross-setting-precedence:Tract', case,
                f"Tract({tdesc!r}, config={CF.to_text(cfg)!r}).parse({kw}) -> "
                f"{t.qqs}; the keyword alone ({CF.to_text(expect)!r}) gives "
                f"{ref.qqs}", dedup=which)
        full = f"T154N-R97W Sec 14: {tdesc}"
        d = pytrs.PLSSDesc(full, config=CF.to_text(dict(cfg, parse_qq=True)),
                           wait_to_parse=True)
        got = d.parse(**kw)
        dref = pytrs.PLSSDesc(full,
                              config=CF.to_text(dict(expect, parse_qq=True)))
        if [x.qqs for x in got] != [x.qqs for x in dref.tracts]:
            ctx.violation(
                'cross-setting-precedence:PLSSDesc', case,
                f"PLSSDesc(config={CF.to_text(cfg)!r}).parse({kw}) -> "
                f"{[x.qqs for x in got]}; the keyword alone gives "
                f"{[x.qqs for x in dref.tracts]}", dedup=which)
        # ... and re-parsing the tracts of the description later agrees.
        d.parse_tracts()
        if [x.qqs for x in d.tracts] != [x.qqs for x in dref.tracts]:
            ctx.violation(
                'cross-setting-precedence:parse_tracts', case,
                f"after parse({kw}) a plain parse_tracts() gives "
                f"{[x.qqs for x in d.tracts]}, expected "
                f"{[x.qqs for x in dref.tracts]}", dedup=which)


# -- a Config object shared between objects -----------------------------------

def run_shared_config(rng, ctx, pytrs):
    """
    A keyword of one object's parse() overrides that parse only: the
    caller's Config object reads the same afterwards, and a second object
    created from the same Config object parses like one created from the
    Config's text.
    """
    cfgtext = rng.choice(['n,w', '', 's,e', 'qq_depth_min.2', 'break_halves',
                          'n,w,qq_depth_min.1,qq_depth_max.3'])
    kw = rng.choice([{'qq_depth': 1, 'clean_qq': True},
                     {'qq_depth_min': 3}, {'break_halves': True},
                     {'qq_depth_max': 2, 'qq_depth_min': 1},
                     {'clean_qq': True}, {'qq_depth': 3}])
    tdesc = rng.choice(['NE/4', 'N/2NE/4NE/4, S/2', 'NE, N/2 of the SW',
                        'E/2W/2SE/4'])
    full = f"T154N-R97W Sec 14: {tdesc}, Sec 15: N/2"
    case = {'kind': 'shared-config', 'config': cfgtext, 'keywords': kw,
            'desc': tdesc}
    ctx.case(['shared', cfgtext, kw, tdesc], True, shape='shared-config',
             sample=case)
    ctx.hit('channel:shared-config-object')
    with ctx.guard(case):
        cfg = pytrs.Config(cfgtext)
        before = cfg.decompile_to_text()
        d1 = pytrs.PLSSDesc(full, config=cfg)
        d1.parse(parse_qq=True, **kw)
        if rng.random() < 0.5:
            d1.parse_tracts(**kw)
        t1 = pytrs.Tract(tdesc, config=cfg)
        t1.parse(**kw)
        after = cfg.decompile_to_text()
        if after != before:
            ctx.violation(
                'keyword-written-into-callers-config', case,
                f"Config({cfgtext!r}) read {before!r}; after another "
                f"object's parse({kw}) it reads {after!r}", dedup='text')
            return
        d2 = pytrs.PLSSDesc(full, config=cfg)
        d2.parse_tracts()
        dref = pytrs.PLSSDesc(full, config=cfgtext)
        dref.parse_tracts()
        t2 = pytrs.Tract(tdesc, config=cfg, parse_qq=True)
        tref = pytrs.Tract(tdesc, config=cfgtext, parse_qq=True)
        got = [(x.trs, x.lots, x.qqs) for x in d2.tracts] + [t2.lots, t2.qqs]
        want = [(x.trs, x.lots, x.qqs) for x in dref.tracts] \
            + [tref.lots, tref.qqs]
        if got != want:
            ctx.violation(
                'shared-config-object-remembers-keywords', case,
                f"after another object's parse({kw}), objects created from "
                f"the same Config({cfgtext!r}) give {got}; created from its "
                f"text they give {want}", dedup='result')


# -- the bulk entry points -------------------------------------------------------

def run_bulk(rng, ctx, pytrs):
    """The keywords of TractList.parse_tracts() / PLSSDesc.parse_tracts() are
    'the same as in Tract.parse()' and win over each tract's own config --
    an explicit False over a configured True included."""
    b = rng.choice(['clean_qq', 'suppress_lot_divs', 'break_halves'])
    val = rng.random() < 0.5
    tdesc = 'N/2 of Lot 1, NE, S/2N/2NE/4NE/4'
    own = f"{b}.{not val}"
    case = {'kind': 'bulk', 'setting': b, 'keyword': val, 'config': own}
    ctx.case(['bulk', b, val], True, shape=f"bulk|{b}|{val}", sample=case)
    ctx.hit('channel:bulk')

    def res(t):
        return [list(t.lots), list(t.qqs)]
    with ctx.guard(case):
        ref = pytrs.Tract(tdesc, trs='154n97w14', config=f"{b}.{val}",
                          parse_qq=True)
        a = pytrs.Tract(tdesc, trs='154n97w14', config=own)
        a.parse(**{b: val})
        tl = pytrs.TractList([pytrs.Tract(tdesc, trs='154n97w14', config=own)])
        tl.parse_tracts(**{b: val})
        d = pytrs.PLSSDesc(f"T154N-R97W Sec 14: {tdesc}", config=own)
        d.parse_tracts(**{b: val})
        for label, got in (('Tract.parse', res(a)),
                           ('TractList.parse_tracts', res(tl[0])),
                           ('PLSSDesc.parse_tracts', res(d.tracts[0]))):
            if got != res(ref):
                ctx.violation(
                    'bulk-keyword-precedence', case,
                    f"{label}({b}={val}) on a tract configured {own!r} gives "
                    f"{got}; configured {b}.{val} it gives {res(ref)}",
                    dedup=f"{label}|{b}|{val}")


def run_ocr_precedence(rng, ctx, pytrs):
    """Absolute, not channel against channel (a process-wide leftover of an
    earlier ocr_scrub parse would affect all channels alike): a Twp/Rge that
    only the OCR scrubber can read is read exactly when ocr_scrub is in force
    -- keyword over config, config over nothing."""
    t, r = rng.choice([(154, 97), (115, 10), (51, 105)])
    ts = str(t).replace('1', rng.choice('Il'), 1).replace('5', 'S', 1)
    text = f"T{ts}N-R{r}W Sec 14: NE/4"
    on, off = [f"{t}n{r}w14"], None
    case = {'kind': 'ocr-precedence', 'text': text}
    ctx.case(['ocr-precedence', text], True, shape='ocr-precedence', sample=case)
    ctx.hit('channel:ocr-precedence')
    P = pytrs.PLSSDesc
    with ctx.guard(case):
        def keyword(cfg, val):
            d = P(text, config=cfg, wait_to_parse=True)
            return [x.trs for x in d.parse(ocr_scrub=val, commit=False)]
        runs = [
            ("config 'ocr_scrub'", [x.trs for x in P(text, config='ocr_scrub').tracts], True),
            ("keyword ocr_scrub=False over config 'ocr_scrub'", keyword('ocr_scrub', False), False),
            ("no setting", [x.trs for x in P(text).tracts], False),
            ("config 'ocr_scrub.False'", [x.trs for x in P(text, config='ocr_scrub.False').tracts], False),
            ("keyword ocr_scrub=True over config 'ocr_scrub.False'", keyword('ocr_scrub.False', True), True),
            ("preprocess(ocr_scrub=False) after an OCR parse",
             [('T%dN-R%dW' % (t, r)) in P(text, config='ocr_scrub').preprocess(ocr_scrub=False, commit=False)], None),
        ]
        for label, got, expect_on in runs:
            if expect_on is None:
                ok = got == [False]
            elif expect_on:
                ok = got == on
            else:
                ok = got != on
            if not ok:
                ctx.violation('ocr-precedence', case,
                              f"{label} on {text!r} gives {got}; the scrubbed "
                              f"reading {on} is expected exactly when "
                              f"ocr_scrub is in force", dedup=label)
                return


def run_layout_over_copy_all(rng, ctx, pytrs):
    """The layout keyword of parse() wins over a layout in the config; the
    other settings of that config (here `segment`) apply to the layout
    actually used."""
    lay = rng.choice(['TRS_desc', 'desc_STR', 'TR_desc_S', 'S_desc_TR'])
    if rng.random() < 0.5:
        base = G.gen_case(rng, layout=lay, max_groups=3, max_secs=2)
        text = base['text']
    else:
        # two parts in different layouts: here segmenting changes the result
        a = G.gen_case(rng, layout='TRS_desc', max_groups=1, max_secs=2)
        b = G.gen_case(rng, layout='desc_STR', max_groups=1, max_secs=2)
        text = rng.choice([a['text'] + '\n' + b['text'],
                           b['text'] + '\n' + a['text']])
    own = rng.choice(['copy_all,segment', 'segment,copy_all',
                      'layout.copy_all,segment.True'])
    case = {'kind': 'layout-over-copy_all', 'text': text, 'layout': lay,
            'config': own}
    ctx.case(['layout-over-copy_all', text, own], True,
             shape=f"layout-over-copy_all|{lay}",
             sample={'text': short(text, 140), 'config': own, 'keyword': lay})
    ctx.hit('channel:layout-over-copy_all')
    with ctx.guard(case):
        d = pytrs.PLSSDesc(text, config=own, wait_to_parse=True)
        got = [(t.trs, t.desc) for t in d.parse(layout=lay)]
        ref = pytrs.PLSSDesc(text, config=f"{lay},segment")
        want = [(t.trs, t.desc) for t in ref.tracts]
        if got != want:
            ctx.violation(
                'cross-setting-precedence:PLSSDesc', case,
                f"PLSSDesc(config={own!r}).parse(layout={lay!r}) -> "
                f"{short(repr(got), 200)}; config '{lay},segment' gives "
                f"{short(repr(want), 200)}", dedup='layout-over-copy_all')


# -- round trip ---------------------------------------------------------------

ATTRS16 = ('default_ns', 'default_ew', 'layout', 'wait_to_parse', 'parse_qq',
           'clean_qq', 'suppress_lot_divs', 'sec_colon_required',
           'sec_colon_cautious', 'ocr_scrub', 'segment', 'qq_depth',
           'qq_depth_min', 'qq_depth_max', 'break_halves', 'sec_within')


def run_roundtrip(rng, ctx, pytrs):
    st = CF.gen_settings(rng, density=rng.choice([0.1, 0.3, 0.6, 0.9]))
    if rng.random() < 0.2:
        st['wait_to_parse'] = rng.random() < 0.5
    if rng.random() < 0.25:
        # qq_depth may be set next to qq_depth_min / qq_depth_max (it then
        # overrides them, but all three are part of the configuration).
        st['qq_depth'] = rng.randint(1, 3)
        if rng.random() < 0.7:
            st['qq_depth_min'] = rng.randint(1, 3)
        if rng.random() < 0.7:
            st['qq_depth_max'] = rng.randint(st.get('qq_depth_min', 2), 4)
    text = CF.to_text(st, rng)
    case = {'kind': 'roundtrip', 'settings': st, 'text': text}
    ctx.case(text, True, shape='roundtrip',
             sample={'config_text': text, 'settings': st})
    ctx.hit('roundtrip')
    with ctx.guard(case):
        c1 = pytrs.Config(text)
        for k in ATTRS16:
            if getattr(c1, k) != st.get(k):
                ctx.violation('config-text-misread', case,
                              f"Config({text!r}).{k} == {getattr(c1, k)!r}, "
                              f"expected {st.get(k)!r}", dedup=k)
                return
        t2 = c1.decompile_to_text()
        c2 = pytrs.Config(t2)
        c3 = pytrs.Config(c1)
        c4 = pytrs.Config.from_dict(dict(st))
        for name, c in (('text round trip', c2), ('Config(Config)', c3),
                        ('from_dict', c4)):
            for k in ATTRS16:
                if getattr(c, k) != getattr(c1, k):
                    ctx.violation(
                        'config-roundtrip', case,
                        f"{name}: {k} == {getattr(c, k)!r} after, "
                        f"{getattr(c1, k)!r} before (text {text!r} -> "
                        f"{t2!r})", dedup=f"{name}|{k}")
                    return
    # A Config object -- compiled from text, built by from_dict / from_kwargs
    # or filled attribute by attribute -- and its text configure an object
    # identically, at creation and by assignment to .config alike.
    with ctx.guard(case):
        TD = 'N/2NE/4NE/4, NE, N/2 of Lot 1'
        tst = {k: v for k, v in st.items() if k != 'wait_to_parse'}
        c1 = pytrs.Config(text)
        c_dict = pytrs.Config.from_dict(dict(tst))
        c_kw = pytrs.Config.from_kwargs(**tst)
        c_attr = pytrs.Config()
        for k, v in tst.items():
            setattr(c_attr, k, v)
        tb = pytrs.Tract(TD, config=c1.decompile_to_text())
        tkeys = ('default_ns', 'default_ew', 'parse_qq', 'clean_qq',
                 'suppress_lot_divs', 'ocr_scrub', 'qq_depth',
                 'qq_depth_min', 'qq_depth_max', 'break_halves')

        def assigned(c):
            t = pytrs.Tract(TD)
            t.config = c
            return t
        variants = [
            ('Tract(config=Config(text))', pytrs.Tract(TD, config=c1)),
            ('Tract(config=Config.from_dict(..))', pytrs.Tract(TD, config=c_dict)),
            ('Tract(config=Config.from_kwargs(..))', pytrs.Tract(TD, config=c_kw)),
            ('Tract(config=Config() filled by attribute)',
             pytrs.Tract(TD, config=c_attr)),
            ('Tract().config = text', assigned(c1.decompile_to_text())),
            ('Tract().config = Config.from_kwargs(..)', assigned(c_kw)),
        ]
        ctx.hit('config-object-vs-text')
        for label, ta in variants:
            bad = next((k for k in tkeys if getattr(ta, k) != getattr(tb, k)),
                       None)
            if bad is not None:
                ctx.violation('config-object-vs-text', case,
                              f"{label} for {text!r}: .{bad} == "
                              f"{getattr(ta, bad)!r} but Tract(config=<its "
                              f"text>) has {getattr(tb, bad)!r}",
                              dedup=f"{label}|{bad}")
                break
            # ... and the same effect: parsed lots/aliquots and the
            # Twp/Rge/Sec the directions produce.
            ta.parse()
            ref = pytrs.Tract(TD, config=c1.decompile_to_text())
            ref.parse()
            got = [list(ta.lots), list(ta.qqs), ta.set_twprgesec(154, 97, 14)]
            exp = [list(ref.lots), list(ref.qqs),
                   f"154{tst.get('default_ns') or 'n'}"
                   f"97{tst.get('default_ew') or 'w'}14"]
            if got != exp:
                ctx.violation('config-object-vs-text', case,
                              f"{label} for {text!r}: parse / set_twprgesec"
                              f"(154, 97, 14) give {got}, expected {exp}",
                              dedup=f"{label}|effect")
                break
        # PLSSDesc likewise.
        ptext = 'T154-R97 Sec 14: ' + TD
        pref = pytrs.PLSSDesc(ptext, config=c1.decompile_to_text())
        if not tst.get('layout') and not tst.get('wait_to_parse'):
            pref.parse(parse_qq=True)
            for label, c in (('Config(text)', c1), ('from_dict', c_dict),
                             ('from_kwargs', c_kw), ('attributes', c_attr)):
                pd = pytrs.PLSSDesc(ptext, config=c)
                pd.parse(parse_qq=True)
                got = [(t.trs, list(t.lots), list(t.qqs)) for t in pd.tracts]
                exp = [(t.trs, list(t.lots), list(t.qqs)) for t in pref.tracts]
                if got != exp:
                    ctx.violation('config-object-vs-text', case,
                                  f"PLSSDesc(config=<Config via {label}>) for "
                                  f"{text!r} gives {got}, via the text {exp}",
                                  dedup=f"plss|{label}")
                    break
    if rng.random() < 0.2:
        # A yes/no setting spelt with a value other than True / False is
        # either rejected (ValueError) or read as the bool it plainly says;
        # it never ends up as some other (truthy) object.
        name = rng.choice([k for k in ATTRS16
                           if k in pytrs.Config._BOOL_TYPE_ATTRIBUTES])
        val = rng.choice(['false', 'true', 'FALSE', 'TRUE', '0', '1', 'no',
                          'yes', 'off', 'x', '2'])
        sep = rng.choice('.=')
        odd = f"{name}{sep}{val}"
        ctx.hit('bool-setting-odd-value')
        ctx.case(odd, True, shape='bool-odd-value')
        try:
            got = getattr(pytrs.Config(odd), name)
        except ValueError:
            got = ValueError
        if got is not ValueError:
            says = {'false': False, 'true': True}.get(val.lower())
            if not isinstance(got, bool) or (says is not None and got != says):
                ctx.violation(
                    'config-text-misread',
                    {'kind': 'roundtrip', 'settings': {}, 'text': odd},
                    f"Config({odd!r}).{name} == {got!r}: neither rejected "
                    f"nor the bool the text says", dedup=f"odd|{val.lower()}")
    if rng.random() < 0.15:
        if rng.random() < 0.5:
            name = rng.choice(UNKNOWN)
        else:
            # A name that is an attribute or method of a Config object but
            # not one of the sixteen settings is unknown all the same.
            ctx.hit('unknown-name:config-attribute')
            own = [n for n in dir(pytrs.Config(''))
                   if n not in CF.ALL_SETTINGS]
            name = rng.choice(own) + rng.choice(['', '.mine', '=1', '.True',
                                                 '.2'])
        bad = (text + ',' + name) if text and rng.random() < 0.5 else name
        ctx.hit('unknown-name')
        ctx.case(bad, True, shape='unknown-name')
        try:
            pytrs.Config(bad)
        except ValueError:
            return
        except Exception as e:
            ctx.violation('unknown-name-wrong-exception',
                          {'kind': 'unknown', 'text': bad},
                          f"Config({bad!r}) raised {type(e).__name__}, "
                          f"expected ValueError")
            return
        ctx.violation('unknown-name-accepted', {'kind': 'unknown', 'text': bad},
                      f"Config({bad!r}) was accepted")


# ---------------------------------------------------------------------------

def _setup(ctx):
    import pytrs
    import warnings
    warnings.simplefilter('ignore')
    log = install_hooks(ctx)
    return pytrs, log


def singles():
    for s, vals in VALUES.items():
        for v in vals:
            st = {s: v}
            if s == 'qq_depth_max':
                st['qq_depth_min'] = min(2, v)
            yield s, st


def run_wait(ctx, pytrs):
    """`wait_to_parse` is a setting like the others: given in the config
    string (or a Config object) at creation it has the effect of the
    keyword; the keyword wins over the config."""
    P = pytrs.PLSSDesc
    text = 'T154N-R97W Sec 14: NE/4, Sec 15: W/2'
    want = [('154n97w14', 'NE/4'), ('154n97w15', 'W/2')]
    # (label, constructor, should it have parsed at creation?)
    rows = [
        ("keyword wait_to_parse=True", lambda: P(text, wait_to_parse=True), False),
        ("config 'wait_to_parse'", lambda: P(text, config='wait_to_parse'), False),
        ("config 'wait_to_parse.True'",
         lambda: P(text, config='wait_to_parse.True'), False),
        ("Config('wait_to_parse') object",
         lambda: P(text, config=pytrs.Config('wait_to_parse')), False),
        ("config 'wait_to_parse,parse_qq,n,w'",
         lambda: P(text, config='wait_to_parse,parse_qq,n,w'), False),
        ("config 'wait_to_parse.False'",
         lambda: P(text, config='wait_to_parse.False'), True),
        ("no setting", lambda: P(text), True),
        ("keyword False over config 'wait_to_parse'",
         lambda: P(text, config='wait_to_parse', wait_to_parse=False), True),
        ("keyword True over config 'wait_to_parse.False'",
         lambda: P(text, config='wait_to_parse.False', wait_to_parse=True),
         False),
    ]
    for label, make, parsed_at_creation in rows:
        case = {'kind': 'wait', 'label': label}
        ctx.hit('wait_to_parse')
        ctx.case(['wait', label], True, shape='wait_to_parse',
                 sample={'channel': label})
        with ctx.guard(case):
            d = make()
            got = [(t.trs, t.desc) for t in d.tracts]
            if parsed_at_creation and got != want:
                ctx.violation('wait_to_parse-channel', case,
                              f"{label}: expected the description parsed at "
                              f"creation, tracts are {got}", dedup=label)
                continue
            if not parsed_at_creation and got:
                ctx.violation('wait_to_parse-channel', case,
                              f"{label}: the description was parsed at "
                              f"creation ({got}) although it was told to "
                              f"wait", dedup=label)
                continue
            d.parse()
            got = [(t.trs, t.desc) for t in d.tracts]
            if got != want:
                ctx.violation('wait_to_parse-channel', case,
                              f"{label}: after parse() tracts are {got}",
                              dedup=label + '|after')


def run_shard(shard, ctx):
    pytrs, log = _setup(ctx)
    fam = shard['family']
    if fam == 'single':
        run_wait(ctx, pytrs)
        for s, st in singles():
            for desc in WITNESS[s] + [COMPOSITE]:
                run_plss(st, desc, ctx, log, pytrs, s)
        return
    if fam == 'tract':
        for s, st in singles():
            run_tract(st, TRACT_WITNESS, ctx, log, pytrs)
            run_tract(st, 'NE, Lot 1', ctx, log, pytrs)
            run_tract(st, ODD_ALIQUOTS.split(': ')[1], ctx, log, pytrs)
        return
    if fam == 'pairs':
        items = list(singles())
        for i, (s1, st1) in enumerate(items):
            for s2, st2 in items[i + 1:]:
                if s1 == s2:
                    continue
                st = dict(st1)
                st.update(st2)
                if 'qq_depth' in st and ('qq_depth_min' in st
                                         or 'qq_depth_max' in st):
                    continue
                if st.get('qq_depth_max', 9) < st.get('qq_depth_min', 2):
                    continue
                desc = WITNESS[s1][0] if (i % 2) else WITNESS[s2][0]
                run_plss(st, desc, ctx, log, pytrs, f"{s1}+{s2}")
                run_plss(st, COMPOSITE, ctx, log, pytrs, f"{s1}+{s2}")
        return
    rng = ctx.rng(fam, shard.get('i', 0))
    if fam == 'roundtrip':
        for i in range(shard['n']):
            run_roundtrip(rng, ctx, pytrs)
            if i % 5 == 0:
                run_cross(rng, ctx, log, pytrs)
            if i % 25 == 0:
                run_bulk(rng, ctx, pytrs)
            if i % 25 == 7:
                run_layout_over_copy_all(rng, ctx, pytrs)
            if i % 25 == 13:
                run_ocr_precedence(rng, ctx, pytrs)
            if i % 10 == 3:
                run_shared_config(rng, ctx, pytrs)
        return
    if fam == 'single-random':
        for _ in range(shard['n']):
            desc = G.gen_case(rng, max_groups=2, max_secs=2)['text']
            for s, st in singles():
                run_plss(st, desc, ctx, log, pytrs, s)
        return
    if fam == 'multi':
        for _ in range(shard['n']):
            st = CF.gen_settings(rng, density=rng.choice([0.15, 0.3, 0.5]))
            if not st:
                continue
            desc = rng.choice([COMPOSITE] + sum(WITNESS.values(), []) + [
                G.gen_case(rng, max_groups=2, max_secs=2)['text']])
            run_plss(st, desc, ctx, log, pytrs, 'multi')
            run_tract(st, TRACT_WITNESS, ctx, log, pytrs)
        return
    raise ValueError(fam)


def replay(case, ctx):
    pytrs, log = _setup(ctx)
    if case['kind'] == 'wait':
        run_wait(ctx, pytrs)
    elif case['kind'] == 'layout-over-copy_all':
        d = pytrs.PLSSDesc(case['text'], config=case['config'],
                           wait_to_parse=True)
        got = [(t.trs, t.desc) for t in d.parse(layout=case['layout'])]
        ref = pytrs.PLSSDesc(case['text'], config=f"{case['layout']},segment")
        ctx.case(['layout-over-copy_all', case['text']], True)
        ctx.hit('channel:layout-over-copy_all')
        if got != [(t.trs, t.desc) for t in ref.tracts]:
            ctx.violation('cross-setting-precedence:PLSSDesc', case,
                          f"{got} vs {[(t.trs, t.desc) for t in ref.tracts]}")
    elif case['kind'] == 'bulk':
        rng = ctx.rng('roundtrip', 0)
        for _ in range(60):
            run_bulk(rng, ctx, pytrs)
    elif case['kind'] == 'plss':
        run_plss(case['settings'], case['desc'], ctx, log, pytrs,
                 case.get('label', 'replay'))
    elif case['kind'] == 'tract':
        run_tract(case['settings'], case['desc'], ctx, log, pytrs)
    else:
        rng = ctx.rng('roundtrip', 0)
        for _ in range(2000):
            run_roundtrip(rng, ctx, pytrs)
            run_cross(rng, ctx, log, pytrs)


MANIFEST_TEXT = (
    "Held on every comparison observed: every single setting x every legal "
    "value (thorough: every pair) on witness descriptions where it matters, "
    "plus random assignments, pushed through config-at-creation, assignment "
    "and parse() keywords for PLSSDesc and Tract, with precedence conflicts "
    "(keyword over config, config over MasterConfig); results, flag "
    "multisets and the effective parameters recorded at the two parser "
    "constructors must agree; config text round trips on thousands of "
    "random assignments. Exploration.")
LEVEL_NOTE = ("Trusts the normalisation of effective parameters (EffLog.norm) "
              "and the witness table.")
TECHNIQUE = ("differential channel oracle with hooks recording the effective "
             "parameters arriving at PLSSParser/TractParser; round-trip "
             "oracle for Config text")
