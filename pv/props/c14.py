"""C14 -- re-parsing is idempotent; commit=False has no side effects."""

from collections import Counter

import icontract

from ..common import short
from ..gen import plss as G

PROP = 'C14'
RULE = (
    "Histories of 1-10 operations on one PLSSDesc drawn from {parse(commit="
    "True|False, keyword overrides), parse_tracts(...), preprocess(commit), "
    "config assignment, sort_tracts, filter(drop=True)} and on one Tract "
    "from {parse(commit, overrides), preprocess(commit), config assignment, "
    "trs assignment}; texts with duplicate lots/aliquots, acreages, "
    "non-sequential lists, trigger phrases, fallback cases and random C01 "
    "descriptions, so that tract-level and description-level flags exist. "
    "Relations: (a) commit=False => full attribute snapshot before == after "
    "(also an icontract snapshot/ensure contract on PLSSDesc.parse, "
    "PLSSDesc.preprocess, Tract.parse, Tract.preprocess); (b) the same "
    "committed call repeated twice more => state unchanged; (c) reference "
    "replay: a fresh object on which only the config assignments, the LAST "
    "committed parse and the operations after it are replayed must equal the "
    "object that lived through the whole history; (d) after the history, "
    "PLSSDesc.parse_tracts(), PLSSDesc.tracts.parse_tracts(), Tract.parse() "
    "on each tract and TractList(tracts).parse_tracts(), all without "
    "arguments, reproduce the same results. Flags compared as "
    "multisets. Non-trivial: history has >= 2 parses at least one of them "
    "committed. Distinct by (text, initial config, history)."
)
ASSUMPTIONS = [
    "Flag order between inherited and own flags is unspecified: multisets.",
    "sort/filter effects are part of the replayed suffix.",
]
MIN_NONTRIVIAL = {'quick': 1500, 'thorough': 40000}
REQUIRED_MONITORS = ['contract:PLSSDesc.parse', 'contract:Tract.parse',
                     'contract:PLSSDesc.preprocess',
                     'contract:Tract.preprocess', 'relation:no-commit',
                     'relation:repeat', 'relation:replay',
                     'relation:entry-points', 'relation:fresh-before-after',
                     'relation:config-applied',
                     'relation:parse_tracts-after-parse',
                     'relation:parse_tracts-leaves-description',
                     'relation:layout-assigned-later',
                     'tract-relation:replay']

TEXTS = [
    "T154N-R97W Sec 14: Lots 1, 1, NE/4, NE/4 less and except the wellbore, "
    "Sec 15: Lots 3 - 1, W/2",
    "NE/4 of Sec 1 - 3, T1S-R2E, Lot 1(40.0), Lot 1(39.0) of Section 9, "
    "T154-R97",
    "T154N-R97W Sec 14 NE, Sec 15: N/2NE/4NE/4",
    "That part of the NE/4 of Sec 13 - 15 lying within RoW, T154N-R97W",
    "foo bar", "T154N-R97W Section NE/4",
    "T154N-R97W Sec 9 - 7: N/2 of Lot 1, Lot 1, Lots 5 - 3 (40.00)",
    "T154N-R97W Sec 14: NE/4; W/2 of Sec 3, T155N-R97W",
    # OCR artefacts in the Twp/Rge: read only under ocr_scrub
    "T1S4N-R97W Sec 14: Lots 1, 1, NE/4\nTlS5N-R97W Sec 3: W/2",
]
TRACT_TEXTS = [
    "Lots 1, 1, NE/4, NE/4", "Lots 3 - 1, W/2, W/2", "NE, N/2 of Lot 1",
    "Lot 1(40.0), Lot 1(39.0), N/2NE/4NE/4", "foo", "ALL",
    "N/2 of Lots 1 - 3, Lot 2, NE¼",
]
CFGS = ['clean_qq', 'segment', 'sec_within', 'qq_depth.1', 's,e',
        'sec_colon_cautious', 'parse_qq', 'break_halves,qq_depth_min.3',
        'parse_qq.False', 'suppress_lot_divs', 'copy_all', 'TRS_desc']
TRACT_CFGS = ['clean_qq', 'qq_depth.1', 'break_halves,qq_depth_min.3',
              'suppress_lot_divs', 'clean_qq.False', 'qq_depth_min.1',
              'break_halves.False', 'suppress_lot_divs.False,clean_qq']


def plan(tier, seed):
    if tier == 'quick':
        return ([{'family': 'plss', 'n': 250, 'i': i} for i in range(8)]
                + [{'family': 'tract', 'n': 500, 'i': i} for i in range(4)])
    return ([{'family': 'plss', 'n': 3500, 'i': i} for i in range(20)]
            + [{'family': 'tract', 'n': 8000, 'i': i} for i in range(8)])


# -- snapshots --------------------------------------------------------------

def _ms(seq):
    return frozenset(Counter(map(lambda x: x if isinstance(x, str)
                                 else tuple(x) if isinstance(x, (list, tuple))
                                 else repr(x), seq)).items())


def tsnap(t):
    return (t.trs, t.desc, t.pp_desc, tuple(t.lots), tuple(t.qqs),
            (tuple(sorted(t.lot_acres.items())), tuple(t.ilots),
             tuple(t.lots_qqs), t.twprge, t.sec_num, t.desc_is_flawed),
            tuple(t.aliquots_whole),
            _ms(t.w_flags), _ms(t.w_flag_lines), _ms(t.e_flags),
            _ms(t.e_flag_lines), t.parse_complete, t.orig_index,
            t.orig_desc, t.source, t.config.decompile_to_text(),
            tuple(getattr(t, a) for a in (
                'default_ns', 'default_ew', 'parse_qq', 'clean_qq',
                'suppress_lot_divs', 'ocr_scrub', 'qq_depth', 'qq_depth_min',
                'qq_depth_max', 'break_halves')))


TNAMES = ('trs', 'desc', 'pp_desc', 'lots', 'qqs',
          'lot_acres/ilots/lots_qqs/twprge/sec_num/desc_is_flawed',
          'aliquots_whole', 'w_flags', 'w_flag_lines', 'e_flags',
          'e_flag_lines', 'parse_complete', 'orig_index', 'orig_desc',
          'source', 'config', 'settings')


def dsnap(d):
    return (tuple(tsnap(t) for t in d.tracts), tuple(id(t) for t in d.tracts),
            d.pp_desc, d.current_layout, d.layout, _ms(d.w_flags),
            _ms(d.e_flags), _ms(d.w_flag_lines), _ms(d.e_flag_lines),
            d.config.decompile_to_text(), d.orig_desc, d.source,
            tuple(getattr(d, a) for a in (
                'default_ns', 'default_ew', 'parse_qq', 'clean_qq',
                'sec_colon_required', 'sec_colon_cautious', 'segment',
                'ocr_scrub', 'sec_within', 'qq_depth', 'qq_depth_min',
                'qq_depth_max', 'break_halves', 'suppress_lot_divs',
                'wait_to_parse')))


DNAMES = ('tracts', 'tract identities', 'pp_desc', 'current_layout', 'layout',
          'w_flags', 'e_flags', 'w_flag_lines', 'e_flag_lines', 'config',
          'orig_desc', 'source', 'settings')


def dcmp(d):
    """Snapshot for comparing two different objects (no identities)."""
    s = dsnap(d)
    return s[:1] + s[2:]


def first_diff(a, b, names):
    for n, x, y in zip(names, a, b):
        if x != y:
            if n == 'tracts' and len(x) == len(y):
                for k, (tx, ty) in enumerate(zip(x, y)):
                    if tx != ty:
                        return (f"tract #{k} "
                                + first_diff(tx, ty, TNAMES))
            return f"{n}: {short(repr(x), 200)} vs {short(repr(y), 200)}"
    return 'equal'


# -- contracts (relation a, evaluated on every call) ---------------------------

class SideEffect(Exception):
    pass


def install_contracts(ctx, rep):
    import pytrs

    def plss_state(self):
        return dsnap(self)

    def tract_state(self):
        return tsnap(self)

    def mk(name, snap, names):
        def no_commit_no_change(self, commit, OLD):
            ctx.hit(f'contract:{name}')
            if not commit:
                now = snap(self)
                if now != OLD.state:
                    rep.report('C14:commit-False-side-effect',
                               f"{name}(commit=False) changed the object: "
                               f"{first_diff(OLD.state, now, names)}",
                               dedup=name)
            return True
        return no_commit_no_change

    for cls, meth, snapf, names in (
            (pytrs.PLSSDesc, 'parse', plss_state, DNAMES),
            (pytrs.PLSSDesc, 'preprocess', plss_state, DNAMES),
            (pytrs.Tract, 'parse', tract_state, TNAMES),
            (pytrs.Tract, 'preprocess', tract_state, TNAMES)):
        name = f"{cls.__name__}.{meth}"
        f = cls.__dict__[meth]
        f = icontract.ensure(mk(name, snapf, names), error=SideEffect)(f)
        f = icontract.snapshot(snapf, name='state')(f)
        setattr(cls, meth, f)


# -- histories ----------------------------------------------------------------

# Descriptions whose reading depends on an optional mode being OFF: parsed
# by fresh objects before and after every history.
CANARIES = [("T1S4N-R97W Sec 14: NE/4, NE", 'parse_qq'),
            ("T154N-R97W Sec 14 NE/4, Sec 15: W/2", ''),
            ("T154-R97 Sec 14: N/2 of Lot 1, S/2N/2NE/4", 'parse_qq'),
            ("That part of the NE/4 of Sec 14 of T154N-R97W lying north", '')]


def canaries(pytrs):
    return [dcmp(pytrs.PLSSDesc(t, config=c or None)) for t, c in CANARIES]


def config_says(cfgtext):
    """{setting: value} for every setting a config text names outright
    (the harness' own reading of 'name', 'name.False', 'name.3')."""
    out = {}
    for item in filter(None, (x.strip() for x in (cfgtext or '').split(','))):
        name, _, val = item.partition('.')
        if name in ('n', 's', 'e', 'w') or name in ('TRS_desc', 'desc_STR',
                                                     'S_desc_TR', 'TR_desc_S',
                                                     'copy_all'):
            continue
        out[name] = (True if val in ('', 'True') else False if val == 'False'
                     else int(val) if val.isdigit() else val)
    return out


def config_not_applied(obj, cfgtext):
    """None, or which setting of the object differs from what the config
    text just assigned to it says."""
    for name, val in config_says(cfgtext).items():
        if hasattr(obj, name) and getattr(obj, name) != val:
            return (f"{name} == {getattr(obj, name)!r} after .config = "
                    f"{cfgtext!r}")
    return None


def rand_kw(rng):
    kw = {}
    for k, vals in dict(parse_qq=[True, False], clean_qq=[True, False],
                        segment=[True, False], sec_within=[True],
                        default_ns=['s'], qq_depth=[1, 3],
                        break_halves=[True], layout=['copy_all', 'TRS_desc'],
                        ocr_scrub=[True],
                        sec_colon_required=[True]).items():
        if rng.random() < 0.2:
            kw[k] = rng.choice(vals)
    return kw


def rand_op(rng):
    k = rng.choice(['parse_nc', 'parse_c', 'parse_c', 'parse_tracts',
                    'preprocess', 'config', 'sort', 'filter'])
    if k == 'parse_nc':
        return ['parse', dict(commit=False, **rand_kw(rng))]
    if k == 'parse_c':
        return ['parse', dict(commit=True, **rand_kw(rng))]
    if k == 'parse_tracts':
        return ['parse_tracts', dict(rng.choice(
            [{}, {'clean_qq': True}, {'qq_depth': 1}, {'config': 'clean_qq'},
             {'suppress_lot_divs': True}]))]
    if k == 'preprocess':
        return ['preprocess', dict(commit=rng.random() < 0.3)]
    if k == 'config':
        return ['config', rng.choice(CFGS)]
    if k == 'sort':
        return ['sort', rng.choice(['s', 't.ns,s.rev', 'i', 'r.ew,s'])]
    return ['filter', rng.choice(['14', '01', '15', '03'])]


def apply(d, op):
    k, a = op
    if k == 'parse':
        return d.parse(**a)
    if k == 'parse_tracts':
        return d.parse_tracts(**a)
    if k == 'preprocess':
        return d.preprocess(**a)
    if k == 'config':
        d.config = a
    elif k == 'sort':
        d.sort_tracts(a)
    elif k == 'filter':
        d.filter(lambda t: t.sec == a, drop=True)


def run_plss(case, ctx, rep, pytrs):
    txt, cfg0, ops = case['text'], case['cfg0'], case['ops']
    rep.set_case(case)
    nparse = sum(1 for o in ops if o[0] in ('parse', 'parse_tracts'))
    committed = any(o[0] == 'parse' and o[1]['commit'] for o in ops)
    ctx.case([txt, cfg0, ops], nparse >= 2 and committed,
             shape=f"plss|ops={len(ops)}",
             sample={'text': short(txt, 100), 'config': cfg0, 'ops': ops})
    with ctx.guard(case):
        # What a fresh object gives before the history ...
        pre = [dcmp(pytrs.PLSSDesc(txt, config=cfg0))] + canaries(pytrs)
        d = pytrs.PLSSDesc(txt, config=cfg0)
        for i, op in enumerate(ops):
            before = dsnap(d)
            apply(d, op)
            if op[0] == 'parse_tracts':
                # Re-parsing the tracts is the tracts' business: nothing of
                # the description itself (its flags, text, layout) changes.
                ctx.hit('relation:parse_tracts-leaves-description')
                if dsnap(d)[2:] != before[2:]:
                    ctx.violation(
                        'parse_tracts-changes-description', case,
                        f"op #{i} {op} changed the PLSSDesc itself: "
                        f"{first_diff(before[2:], dsnap(d)[2:], DNAMES[2:])}",
                        dedup='parse_tracts-desc')
                    return
            if op[0] == 'config':
                ctx.hit('relation:config-applied')
                why = config_not_applied(d, op[1])
                if why:
                    ctx.violation('config-assignment-not-applied', case,
                                  f"op #{i}: PLSSDesc.{why}", dedup='plss')
                    return
            if op[0] == 'parse' and op[1]['commit'] and len(d.tracts) \
                    and all(t.parse_complete for t in d.tracts):
                # the tracts were parsed by this call: parsing them again
                # with no arguments reproduces the same results
                ctx.hit('relation:parse_tracts-after-parse')
                s0 = dcmp(d)
                d.parse_tracts()
                if dcmp(d) != s0:
                    ctx.violation(
                        'reparse-not-idempotent', case,
                        f"op #{i} {op} followed by parse_tracts() without "
                        f"arguments changed the results: "
                        f"{first_diff(s0, dcmp(d), DNAMES[:1] + DNAMES[2:])}",
                        dedup='parse_tracts-after-parse')
                    return
            if op[0] in ('parse', 'preprocess') and not op[1]['commit']:
                ctx.hit('relation:no-commit')
                if dsnap(d) != before:
                    ctx.violation(
                        'commit-False-side-effect', case,
                        f"op #{i} {op} changed the object: "
                        f"{first_diff(before, dsnap(d), DNAMES)}",
                        dedup=op[0])
                    return
            if (op[0] == 'parse' and op[1]['commit']) or op[0] == 'parse_tracts':
                ctx.hit('relation:repeat')
                s1 = dcmp(d)
                apply(d, op)
                apply(d, op)
                if dcmp(d) != s1:
                    ctx.violation(
                        'reparse-not-idempotent', case,
                        f"op #{i} {op} repeated twice more changed the "
                        f"state: {first_diff(s1, dcmp(d), DNAMES[:1] + DNAMES[2:])}",
                        dedup=op[0])
                    return
        # ... and after it: nothing the history did -- committed or not --
        # may have changed what another, fresh object gives.
        ctx.hit('relation:fresh-before-after')
        post = [dcmp(pytrs.PLSSDesc(txt, config=cfg0))] + canaries(pytrs)
        if pre != post:
            k = [i for i, (x, y) in enumerate(zip(pre, post)) if x != y][0]
            what = 'the same text and config' if k == 0 else \
                f"canary text {CANARIES[k - 1][0]!r} (config {CANARIES[k - 1][1]!r})"
            ctx.violation(
                'history-changes-fresh-objects', case,
                f"a fresh PLSSDesc of {what} differs after the history from "
                f"one created before it: "
                f"{first_diff(pre[k], post[k], DNAMES[:1] + DNAMES[2:])}",
                dedup='fresh')
            return
        # Reference replay.
        ctx.hit('relation:replay')
        last = max([i for i, o in enumerate(ops)
                    if o[0] == 'parse' and o[1]['commit']], default=-1)
        ref = pytrs.PLSSDesc(txt, config=cfg0)
        for i, op in enumerate(ops):
            if op[0] == 'config':
                apply(ref, op)
            elif i == last:
                apply(ref, op)
            elif i > last and op[0] in ('parse_tracts', 'sort', 'filter'):
                apply(ref, op)
            elif i > last and op[0] == 'preprocess' and op[1]['commit']:
                apply(ref, op)
        a, b = dcmp(d), dcmp(ref)
        if a != b:
            ctx.violation(
                'history-dependent-state', case,
                f"object after the whole history differs from a fresh "
                f"object given only the state-changing suffix: "
                f"{first_diff(a, b, DNAMES[:1] + DNAMES[2:])}",
                dedup='replay')
            return
        # A layout configured after creation is in force for the next parse
        # exactly as if the object had been created with it.
        if len(txt) % 3 == 0:
            ctx.hit('relation:layout-assigned-later')
            L = ('TRS_desc', 'desc_STR', 'S_desc_TR', 'TR_desc_S')[len(txt) % 4]
            late = pytrs.PLSSDesc(txt)
            late.config = L
            got_nc = [(t.trs, t.desc) for t in late.parse(commit=False)]
            late.parse()
            born = pytrs.PLSSDesc(txt, config=L)
            want = [(t.trs, t.desc) for t in born.tracts]
            if got_nc != want or dcmp(late)[:7] != dcmp(born)[:7]:
                ctx.violation(
                    'history-dependent-state', case,
                    f"PLSSDesc(text); .config = {L!r}; parse() gives "
                    f"{[(t.trs, short(t.desc, 25)) for t in late.tracts][:4]} "
                    f"(what-if: {got_nc[:3]}); created with config {L!r}: "
                    f"{[(t.trs, short(t.desc, 25)) for t in born.tracts][:4]}"
                    f" -- {first_diff(dcmp(late)[:7], dcmp(born)[:7], (DNAMES[:1] + DNAMES[2:])[:7])}",
                    dedup='layout-later')
                return
        # Every entry point that re-parses the tracts with unchanged
        # settings reproduces the same results.
        ctx.hit('relation:entry-points')
        own = dsnap(d)[2:]
        d.parse_tracts()
        if dsnap(d)[2:] != own:
            ctx.violation(
                'parse_tracts-changes-description', case,
                f"parse_tracts() after the history changed the PLSSDesc "
                f"itself: {first_diff(own, dsnap(d)[2:], DNAMES[2:])}",
                dedup='parse_tracts-desc')
            return
        # ... and parsing one tract leaves its siblings alone.
        for k, t in enumerate(d.tracts[:3]):
            others = [tsnap(o) for o in d.tracts if o is not t]
            t.parse()
            if [tsnap(o) for o in d.tracts if o is not t] != others \
                    or dsnap(d)[2:] != own:
                ctx.violation(
                    'tract-parse-changes-siblings', case,
                    f"Tract.parse() on tract #{k} changed another tract of "
                    f"the same description or the description itself",
                    dedup='siblings')
                return
        s1 = dcmp(d)
        for label, redo in (
                ('PLSSDesc.tracts.parse_tracts()',
                 lambda: d.tracts.parse_tracts()),
                ('Tract.parse() on each tract',
                 lambda: [t.parse() for t in d.tracts]),
                ('TractList(tracts).parse_tracts()',
                 lambda: pytrs.TractList(list(d.tracts)).parse_tracts())):
            redo()
            s2 = dcmp(d)
            if s2 != s1:
                ctx.violation(
                    'reparse-entry-points-differ', case,
                    f"after PLSSDesc.parse_tracts(), {label} with no "
                    f"arguments changed the results: "
                    f"{first_diff(s1, s2, DNAMES[:1] + DNAMES[2:])}",
                    dedup=label)
                return


def tapply(t, op):
    k, a = op
    if k == 'parse':
        return t.parse(**a)
    if k == 'preprocess':
        return t.preprocess(**a)
    if k == 'config':
        t.config = a
    elif k == 'trs':
        t.trs = a


def rand_top(rng):
    k = rng.choice(['parse_nc', 'parse_c', 'parse_c', 'preprocess', 'config',
                    'trs'])
    kw = {}
    for name, vals in dict(clean_qq=[True, False], suppress_lot_divs=[True],
                           qq_depth=[1, 3], qq_depth_min=[1, 3],
                           break_halves=[True]).items():
        if rng.random() < 0.2:
            kw[name] = rng.choice(vals)
    if 'qq_depth' in kw:
        kw.pop('qq_depth_min', None)
    if k == 'parse_nc':
        return ['parse', dict(commit=False, **kw)]
    if k == 'parse_c':
        return ['parse', dict(commit=True, **kw)]
    if k == 'preprocess':
        return ['preprocess', dict(commit=rng.random() < 0.4,
                                   clean_qq=rng.choice([None, True]))]
    if k == 'config':
        return ['config', rng.choice(TRACT_CFGS)]
    return ['trs', rng.choice(['154n97w14', '1s2e03', '', 'XXXzXXXzXX'])]


def run_tract(case, ctx, rep, pytrs):
    txt, cfg0, ops = case['text'], case['cfg0'], case['ops']
    rep.set_case(case)
    nparse = sum(1 for o in ops if o[0] == 'parse')
    committed = any(o[0] == 'parse' and o[1]['commit'] for o in ops)
    ctx.case([txt, cfg0, ops], nparse >= 2 and committed,
             shape=f"tract|ops={len(ops)}",
             sample={'text': txt, 'config': cfg0, 'ops': ops})
    with ctx.guard(case):
        t = pytrs.Tract(txt, trs='154n97w01', config=cfg0)
        for i, op in enumerate(ops):
            before = tsnap(t)
            tapply(t, op)
            if op[0] == 'config':
                ctx.hit('relation:config-applied')
                why = config_not_applied(t, op[1])
                if why:
                    ctx.violation('config-assignment-not-applied', case,
                                  f"op #{i}: Tract.{why}", dedup='tract')
                    return
            if op[0] in ('parse', 'preprocess') and not op[1]['commit']:
                if tsnap(t) != before:
                    ctx.violation(
                        'tract-commit-False-side-effect', case,
                        f"op #{i} {op} changed the Tract: "
                        f"{first_diff(before, tsnap(t), TNAMES)}",
                        dedup=op[0])
                    return
            if op[0] == 'parse' and op[1]['commit']:
                s1 = tsnap(t)
                tapply(t, op)
                tapply(t, op)
                if tsnap(t) != s1:
                    ctx.violation(
                        'tract-reparse-not-idempotent', case,
                        f"op #{i} {op} repeated twice more: "
                        f"{first_diff(s1, tsnap(t), TNAMES)}", dedup='parse')
                    return
        ctx.hit('tract-relation:replay')
        last = max([i for i, o in enumerate(ops)
                    if o[0] == 'parse' and o[1]['commit']], default=-1)
        last_pp = max([i for i, o in enumerate(ops)
                       if o[0] == 'preprocess' and o[1]['commit']], default=-1)
        ref = pytrs.Tract(txt, trs='154n97w01', config=cfg0)
        for i, op in enumerate(ops):
            if op[0] in ('config', 'trs'):
                tapply(ref, op)
            elif i == last:
                tapply(ref, op)
            elif i == last_pp and i > last:
                tapply(ref, op)
        a, b = tsnap(t), tsnap(ref)
        if a != b:
            ctx.violation(
                'tract-history-dependent-state', case,
                f"Tract after the whole history differs from a fresh one "
                f"given only the state-changing suffix: "
                f"{first_diff(a, b, TNAMES)}", dedup='replay')


def _setup(ctx):
    import pytrs
    import warnings
    from ..monitors.core import Reporter
    warnings.simplefilter('ignore')
    rep = Reporter(ctx)
    install_contracts(ctx, rep)
    return pytrs, rep


def run_shard(shard, ctx):
    pytrs, rep = _setup(ctx)
    rng = ctx.rng(shard['family'], shard['i'])
    for _ in range(shard['n']):
        if shard['family'] == 'plss':
            txt = rng.choice(TEXTS) if rng.random() < 0.7 else \
                G.gen_case(rng, max_groups=2, max_secs=2)['text']
            case = {'kind': 'plss', 'text': txt,
                    'cfg0': rng.choice(['', None, 'parse_qq',
                                        'clean_qq,parse_qq', 'segment',
                                        'wait_to_parse']),
                    'ops': [rand_op(rng) for _ in range(rng.randint(1, 10))]}
            run_plss(case, ctx, rep, pytrs)
        else:
            case = {'kind': 'tract', 'text': rng.choice(TRACT_TEXTS),
                    'cfg0': rng.choice(['', None, 'parse_qq', 'clean_qq',
                                        'parse_qq,qq_depth.1']),
                    'ops': [rand_top(rng) for _ in range(rng.randint(1, 8))]}
            run_tract(case, ctx, rep, pytrs)


def replay(case, ctx):
    pytrs, rep = _setup(ctx)
    if case['kind'] == 'plss':
        run_plss(case, ctx, rep, pytrs)
    else:
        run_tract(case, ctx, rep, pytrs)


MANIFEST_TEXT = (
    "Held on every history observed: 4k (quick) / ~130k (thorough) random "
    "operation histories on PLSSDesc and Tract objects with full attribute "
    "snapshots before/after every call, checked against three relations "
    "(commit=False changes nothing; a repeated committed call changes "
    "nothing; the final state equals that of a fresh object given only the "
    "state-changing suffix); relation (a) also runs as an icontract "
    "snapshot/ensure contract on the four real methods. Exploration.")
LEVEL_NOTE = ("Trusts the snapshot functions (tsnap/dsnap) to cover every "
              "observable attribute and the replay model of which operations "
              "change state.")
TECHNIQUE = ("history recording at the API boundary + reference-replay model; "
             "icontract snapshot/ensure contracts for commit=False")
