"""C20 -- optional parse modes are conservative where they are not needed."""

import re

from ..common import short
from ..gen import plss as G

PROP = 'C20'
RULE = (
    "(a) segment: single-layout C01 descriptions on which the C01 oracle "
    "holds -> config 'segment' yields the same (trs, desc) list as the "
    "default. (b) all sections colon-terminated (TRS_desc / S_desc_TR): "
    "sec_colon_required and sec_colon_cautious change neither tracts nor "
    "flags. (c) every colon after a section removed: sec_colon_cautious == "
    "default tracts plus a pulled_sec_without_colon warning; "
    "sec_colon_required == exactly one fallback tract holding the whole "
    "preprocessed text. (d) sec_within: (leading text ending in ' of '/' in "
    "', one section | range | pair, trailing text, Twp/Rge placed before / "
    "before on its own line / inside / after) -> that section's tract(s) "
    "described by leading + ' ' + trailing, with a sec_within<trs> warning "
    "per tract when there is trailing text (trailing texts of exactly 4 and 5 "
    "characters included); every mode is requested both through the config "
    "string and through the parse() keyword. Hooks record "
    "PLSSChunker.segment (blocks / unused), rebuild_sec_within (before / "
    "after) and SecFinder passes for the witnesses. Non-trivial: >= 2 "
    "expected tracts (a-c) or a multi-section / trailing text (d). Distinct "
    "by (text, mode)."
)
ASSUMPTIONS = [
    "Leading texts end with ' of ' or ' in ' (the connectors the parser "
    "strips); ' within ' is kept by the library and is not generated.",
    "(a)-(c) only judge descriptions on which the default parse already "
    "matches the C01 expectation.",
]
MIN_NONTRIVIAL = {'quick': 4000, 'thorough': 100000}
REQUIRED_MONITORS = ['segment', 'all-colons', 'no-colons:cautious',
                     'no-colons:required', 'no-colons:required+cautious', 'keyword-channel', 'sec_within',
                     'config-object-channel',
                     'hook:segment',
                     'hook:rebuild_sec_within', 'hook:findall_matching_sec',
                     'variant:blank-before-colon', 'variant:no-connector',
                     'variant:context-section']

LEAD = ['That part of the NE/4', 'The north 100 feet', 'All that portion',
        'A tract of land', 'That part of Lot 1', 'NE/4', 'The W/2 and Lot 3',
        'A strip 50 feet wide']
TRAIL = ['SW/4', 'N2S2', 'W2E2', 'Lot 1', 'RoW 3',
         'lying within RoW', 'lying north of the river',
         'described as follows', 'less and except the wellbore',
         'containing 40 acres, more or less', 'as shown on the plat', '']
TRAIL2 = ['and south of the river', 'excluding the pond',
          'subject to the easement', 'lying east of the fence',
          'less the north 100 feet', 'S2N2']
_SEP = ',;:-–—\t\n .'
_CULL = re.compile(r'(\s+(the|all in|all of|all|of|in|and))+$', re.I)


def plan(tier, seed):
    if tier == 'quick':
        return ([{'family': 'modes', 'n': 450, 'i': i} for i in range(8)]
                + [{'family': 'sec_within', 'n': 800, 'i': i} for i in range(4)])
    return ([{'family': 'modes', 'n': 5000, 'i': i} for i in range(20)]
            + [{'family': 'sec_within', 'n': 12000, 'i': i} for i in range(8)])


def loose(s):
    prev = None
    while s != prev:
        prev = s
        s = s.strip(_SEP)
        s = _CULL.sub('', ' ' + s)[1:] if s else s
    return re.sub(r'\s+', ' ', s)


def tr(d):
    return [[t.trs, t.desc] for t in d.tracts]


def check_modes(case, ctx, rec, pytrs):
    txt, exp, layout = case['text'], case['expected'], case['layout']
    with ctx.guard(case):
        a = pytrs.PLSSDesc(txt)
        if tr(a) != exp or a.e_flags:
            ctx.discard('C01-does-not-hold-here')
            return
        ctx.hit('variant:' + case.get('variant', 'plain'))
        ctx.case([txt, 'modes'], len(exp) >= 2,
                 shape=f"modes|{layout}|{case.get('variant', 'plain')}",
                 sample={'text': short(txt, 160), 'layout': layout})
        rec.reset()
        b = pytrs.PLSSDesc(txt, config='segment')
        ctx.hit('segment')
        if tr(b) != tr(a):
            seg = rec.of('segment')
            ctx.violation(
                'segment-changes-tracts', case,
                f"segment on a single-layout ({layout}) description: "
                f"{tr(b)} vs default {tr(a)} (e_flags {b.e_flags})",
                dedup=layout,
                witness={'blocks': seg[-1]['blocks'] if seg else None,
                         'unused_blocks': seg[-1]['unused_blocks'] if seg else None})
        if layout not in ('TRS_desc', 'S_desc_TR'):
            return
        for cfg in ('sec_colon_required', 'sec_colon_cautious'):
            ctx.hit('all-colons')
            rec.reset()
            c = pytrs.PLSSDesc(txt, config=cfg)
            if tr(c) != tr(a) or sorted(map(str, c.flags)) != sorted(map(str, a.flags)):
                ctx.violation(
                    'colon-mode-changes-colon-terminated-description', case,
                    f"{cfg}: tracts {tr(c)} flags {c.flags} vs default "
                    f"{tr(a)} flags {a.flags}", dedup=f"{cfg}|{layout}",
                    witness={'passes': rec.of('find_sec')})
        # every colon after a section number removed
        nocol = case['nocolon']
        a2 = pytrs.PLSSDesc(nocol)
        ctx.hit('no-colons:cautious')
        rec.reset()
        c = pytrs.PLSSDesc(nocol, config='sec_colon_cautious')
        if tr(c) != tr(a2):
            ctx.violation(
                'cautious-differs-from-default-without-colons', case,
                f"{short(nocol, 120)!r}: cautious {tr(c)} vs default {tr(a2)}",
                dedup=layout, witness={'passes': rec.of('find_sec')})
        elif not any(isinstance(f, str)
                     and f.startswith('pulled_sec_without_colon')
                     for f in c.w_flags):
            ctx.violation(
                'cautious-without-warning', case,
                f"{short(nocol, 120)!r}: sections pulled without colon but no "
                f"pulled_sec_without_colon warning (w_flags {c.w_flags})",
                dedup=layout)
        # The modes requested through a Config object built from keyword
        # arguments / a dict rather than from text.
        ctx.hit('config-object-channel')
        for mode, ref in (('sec_colon_cautious', c), ('segment', None),
                          ('sec_colon_required', None)):
            src = nocol if mode != 'segment' else txt
            if ref is None:
                ref = pytrs.PLSSDesc(src, config=mode)
            maker = (pytrs.Config.from_kwargs if len(src) % 2
                     else lambda **kw: pytrs.Config.from_dict(kw))
            o = pytrs.PLSSDesc(src, config=maker(**{mode: True}))
            if tr(o) != tr(ref) or sorted(map(str, o.w_flags)) != \
                    sorted(map(str, ref.w_flags)):
                ctx.violation(
                    'mode-config-object-differs-from-config-text', case,
                    f"Config object with {mode}=True on {short(src, 100)!r}: "
                    f"{tr(o)} flags {o.w_flags} vs config text {tr(ref)} "
                    f"flags {ref.w_flags}", dedup=f"cfgobj|{mode}")
                break
        # The same two modes requested through parse() keywords.
        ctx.hit('keyword-channel')
        k = pytrs.PLSSDesc(nocol)
        kc = k.parse(sec_colon_cautious=True, commit=False)
        if [[t.trs, t.desc] for t in kc] != tr(c):
            ctx.violation(
                'mode-keyword-differs-from-config', case,
                f"parse(sec_colon_cautious=True) on {short(nocol, 100)!r}: "
                f"{[[t.trs, t.desc] for t in kc]} vs config channel {tr(c)}",
                dedup='cautious')
        k.parse(sec_colon_cautious=True)
        if sorted(map(str, k.w_flags)) != sorted(map(str, c.w_flags)):
            ctx.violation(
                'mode-keyword-differs-from-config', case,
                f"parse(sec_colon_cautious=True) flags {k.w_flags} vs config "
                f"channel {c.w_flags}", dedup='cautious-flags')
        k2 = pytrs.PLSSDesc(nocol, wait_to_parse=True)
        kr = k2.parse(sec_colon_required=True)
        ks = pytrs.PLSSDesc(txt).parse(segment=True, commit=False)
        if [[t.trs, t.desc] for t in ks] != tr(b):
            ctx.violation('mode-keyword-differs-from-config', case,
                          f"parse(segment=True) {[[t.trs, t.desc] for t in ks]}"
                          f" vs config 'segment' {tr(b)}", dedup='segment')
        ctx.hit('no-colons:required')
        r = pytrs.PLSSDesc(nocol, config='sec_colon_required')
        if [[t.trs, t.desc] for t in kr] != tr(r):
            ctx.violation(
                'mode-keyword-differs-from-config', case,
                f"parse(sec_colon_required=True) on {short(nocol, 100)!r}: "
                f"{[[t.trs, t.desc] for t in kr]} vs config channel {tr(r)}",
                dedup='required')
        # sec_colon_required is not weakened by sec_colon_cautious being on
        # as well, whichever way the two come together
        ctx.hit('no-colons:required+cautious')
        both = len(nocol) % 3
        if both == 0:
            rb = pytrs.PLSSDesc(
                nocol, config='sec_colon_cautious,sec_colon_required')
        elif both == 1:
            rb = pytrs.PLSSDesc(nocol, config='sec_colon_cautious')
            rb.parse(sec_colon_required=True)
        else:
            rb = pytrs.PLSSDesc(nocol, config='sec_colon_cautious')
            rb.sec_colon_required = True
            rb.parse()
        if tr(rb) != tr(r):
            ctx.violation(
                'required-weakened-by-cautious', case,
                f"{short(nocol, 100)!r}: sec_colon_required together with "
                f"sec_colon_cautious (way {both}) gave {tr(rb)}; "
                f"sec_colon_required alone gives {tr(r)}", dedup=str(both))
        if len(r.tracts) != 1 or loose(r.tracts[0].desc) != loose(r.pp_desc):
            ctx.violation(
                'required-without-colons-not-one-fallback-tract', case,
                f"{short(nocol, 120)!r}: sec_colon_required gave {tr(r)}, "
                f"expected one tract holding {short(r.pp_desc, 100)!r}",
                dedup=layout)
        elif not r.e_flags and 'XX' in r.tracts[0].trs:
            ctx.violation('required-fallback-without-error-flag', case,
                          f"fallback tract {r.tracts[0].trs} without error "
                          f"flag")


def gen_sec_within(rng):
    lead = rng.choice(LEAD)
    trail = rng.choice(TRAIL)
    k = rng.choice(['s', 's', 'r', 'a'])
    word = rng.choice(['Sec', 'Section', 'Sec.'])
    if k == 's':
        n = rng.randint(1, 36)
        st, nums = f"{word} {n}", [n]
    elif k == 'r':
        a = rng.randint(1, 30)
        b = a + rng.randint(1, 3)
        st, nums = f"{rng.choice(['Sec', 'Sections', 'Secs'])} {a} - {b}", \
            list(range(a, b + 1))
    else:
        a, b = rng.sample(range(1, 37), 2)
        st, nums = f"Sections {a} and {b}", [a, b]
    t = rng.randint(1, 160)
    r = rng.randint(3, 99)
    ns, ew = rng.choice('ns'), rng.choice('ew')
    trtxt = f"T{t}{ns.upper()}-R{r}{ew.upper()}"
    place = rng.choice(['before', 'before_nl', 'within', 'after',
                        'split-trail'])
    conn = rng.choice([' of ', ' in '])
    trail2 = ''
    if place == 'split-trail':
        # the Twp/Rge stands inside the trailing text: two trailing pieces,
        # attached in reading order
        trail = rng.choice([x for x in TRAIL if x])
        trail2 = rng.choice(TRAIL2)
    if place == 'before':
        txt = f"{trtxt}: {lead}{conn}{st} {trail}"
    elif place == 'before_nl':
        txt = f"{trtxt}\n{lead}{conn}{st} {trail}"
    elif place == 'within':
        txt = f"{lead}{conn}{st}, {trtxt} {trail}"
    elif place == 'split-trail':
        txt = f"{lead}{conn}{st} {trail}, {trtxt}{rng.choice([', ', ' '])}{trail2}"
    else:
        txt = f"{lead}{conn}{st} {trail}, {trtxt}"
    txt = txt.strip().rstrip(',').strip()
    desc = ' '.join(x for x in (lead, trail, trail2) if x)
    exp = [[f"{t}{ns}{r}{ew}{n:02d}", desc] for n in nums]
    return {'sec_within': True, 'text': txt, 'expected': exp, 'trail': trail,
            'place': place, 'multi': len(nums) > 1,
            'channel': rng.choice(['config', 'config', 'keyword',
                                   'keyword-nocommit', 'config-object'])}


def check_sec_within(case, ctx, rec, pytrs):
    txt, exp = case['text'], case['expected']
    ctx.case([txt, 'sec_within'], case['multi'] or bool(case['trail']),
             shape=f"sec_within|{case['place']}|trail={bool(case['trail'])}",
             sample={'text': txt, 'expected': exp})
    ctx.hit('sec_within')
    rec.reset()
    with ctx.guard(case):
        tracts = None
        if case.get('channel') == 'keyword':
            d = pytrs.PLSSDesc(txt, wait_to_parse=True)
            d.parse(sec_within=True)
        elif case.get('channel') == 'keyword-nocommit':
            # the what-if parse: the returned tracts are the only carrier
            # of the result and of its warnings
            ctx.hit('sec_within:nocommit')
            d = pytrs.PLSSDesc(txt, wait_to_parse=True)
            tracts = list(d.parse(sec_within=True, commit=False))
        elif case.get('channel') == 'config-object':
            d = pytrs.PLSSDesc(
                txt, config=pytrs.Config.from_kwargs(sec_within=True))
        else:
            d = pytrs.PLSSDesc(txt, config='sec_within')
        sw = rec.of('sec_within')
        wit = {'rebuild': sw[-1] if sw else None}
        if tracts is None:
            tracts = list(d.tracts)
        got = [[t.trs, t.desc] for t in tracts]
        if got != exp:
            ctx.violation('sec_within-tracts', case,
                          f"{txt!r}: {got}, expected {exp} (e_flags "
                          f"{d.e_flags})", dedup=case['place'], witness=wit)
            return
        if case['trail']:
            # the warning is on the tract it concerns ...
            bare = [t.trs for t in tracts
                    if f"sec_within<{t.trs}>" not in t.w_flags]
            if bare:
                ctx.violation('sec_within-warning-missing', case,
                              f"{txt!r}: tract(s) {bare} do not carry their "
                              f"sec_within warning (w_flags "
                              f"{[t.w_flags for t in tracts][:2]})",
                              dedup='tract|' + case['place'], witness=wit)
                return
        if case['trail'] and case.get('channel') != 'keyword-nocommit':
            missing = [e[0] for e in exp
                       if f"sec_within<{e[0]}>" not in d.w_flags]
            if missing:
                ctx.violation('sec_within-warning-missing', case,
                              f"{txt!r}: no sec_within warning for {missing} "
                              f"(w_flags {d.w_flags})", dedup=case['place'],
                              witness=wit)
        if d.e_flags and case.get('channel') != 'keyword-nocommit':
            ctx.violation('sec_within-error-flag', case,
                          f"{txt!r}: error flags {d.e_flags} although all "
                          f"text was attached", dedup=case['place'])


def _setup(ctx):
    import pytrs
    import warnings
    from ..monitors import plss_hooks
    warnings.simplefilter('ignore')
    rec = plss_hooks.install(ctx, scrubbers=False)
    return pytrs, rec


def gen_modes(rng):
    case = G.gen_case(rng, max_groups=3, max_secs=3)
    text = case['text']
    # remove the ': ' the renderer put after every section group
    nocol = text
    for a, b, k in sorted(case['spans'], reverse=True):
        if k == 'sec' and nocol[b:b + 1] == ':':
            nocol = nocol[:b] + nocol[b + 1:]
    case['nocolon'] = nocol
    # Two spelling variants inside the same layouts (the default parse of
    # the variant must still give the expected tracts, else the case is
    # discarded by check_modes):
    r = rng.random()
    spans = sorted(case['spans'], reverse=True)
    if r < 0.15 and case['layout'] in ('TRS_desc', 'S_desc_TR'):
        # a blank before the colon: 'Sec 14 : NE/4'
        for a, b, k in spans:
            if k == 'sec' and text[b:b + 1] == ':':
                text = text[:b] + ' ' + text[b:]
        case['variant'] = 'blank-before-colon'
    elif r < 0.30 and case['layout'] == 'TR_desc_S':
        # no 'of' between a block (of >= 4 characters) and its section:
        # 'T154N-R97W SW/4 Section 1'
        ends = {b: a for a, b, k in spans if k == 'block'}
        for a, b, k in spans:
            if k == 'sec' and text[a - 4:a] == ' of ' and (a - 4) in ends \
                    and (a - 4) - ends[a - 4] >= 4:
                text = text[:a - 3] + text[a:]
        case['variant'] = 'no-connector'
    case['text'] = text
    return case


def check_context_section(case, ctx, rec, pytrs):
    """A section that is only mentioned inside a description block ('... and
    in Sec 15: W/2') is not a section of its own by default; with every
    section followed by a colon the colon modes change nothing about that."""
    txt = case['text']
    with ctx.guard(case):
        a = pytrs.PLSSDesc(txt)
        if len(a.tracts) != case['n_expected'] or a.e_flags:
            ctx.discard('context-section-not-read-as-expected')
            return
        ctx.case([txt, 'context-section'], True, shape='modes|context-section',
                 sample={'text': short(txt, 160)})
        ctx.hit('variant:context-section')
        for cfg in ('sec_colon_required', 'sec_colon_cautious'):
            ctx.hit('all-colons')
            c = pytrs.PLSSDesc(txt, config=cfg)
            if tr(c) != tr(a):
                ctx.violation(
                    'colon-mode-changes-colon-terminated-description', case,
                    f"{cfg}: tracts {tr(c)} vs default {tr(a)}",
                    dedup=f"{cfg}|context-section")


def gen_context_section(rng):
    tw = G.render_twprge((rng.randint(1, 160), rng.choice('ns'),
                          rng.randint(3, 99), rng.choice('ew')), 'compact')
    a, b = rng.sample(range(1, 37), 2)
    word = rng.choice(['in', 'of', 'within', 'said'])
    blk = rng.choice(['NE/4', 'Lots 1 - 3', 'W/2, that part lying north'])
    blk2 = rng.choice(['W/2', 'Lot 4', 'ALL'])
    lay = rng.choice(['TRS_desc', 'S_desc_TR'])
    body = (f"{rng.choice(['Sec', 'Section'])} {a}: {blk}, and {word} "
            f"{rng.choice(['Sec', 'Section'])} {b}: {blk2}")
    text = f"{tw} {body}" if lay == 'TRS_desc' else f"{body}, {tw}"
    return {'context_section': True, 'text': text, 'layout': lay,
            'n_expected': 1}


def run_shard(shard, ctx):
    pytrs, rec = _setup(ctx)
    rng = ctx.rng(shard['family'], shard['i'])
    for _ in range(shard['n']):
        if shard['family'] == 'modes':
            if rng.random() < 0.1:
                check_context_section(gen_context_section(rng), ctx, rec, pytrs)
                continue
            check_modes(gen_modes(rng), ctx, rec, pytrs)
        else:
            check_sec_within(gen_sec_within(rng), ctx, rec, pytrs)


def replay(case, ctx):
    pytrs, rec = _setup(ctx)
    if case.get('context_section'):
        check_context_section(case, ctx, rec, pytrs)
    elif case.get('sec_within'):
        check_sec_within(case, ctx, rec, pytrs)
    else:
        check_modes(case, ctx, rec, pytrs)


MANIFEST_TEXT = (
    "Held on every execution observed: 3.6k (quick) / 100k (thorough) "
    "single-layout descriptions compared between the default parse and "
    "`segment`, both colon modes with all colons present and with every "
    "colon removed, plus 3k / 96k constructed sec_within descriptions "
    "(section, range or pair embedded in text; Twp/Rge before / inside / "
    "after) compared with a small model; hooks on the chunker, "
    "rebuild_sec_within and the SecFinder passes supply witnesses. "
    "Exploration.")
LEVEL_NOTE = ("Differential against the library's own default parse (itself "
              "judged by C01) and the sec_within model in gen_sec_within().")
TECHNIQUE = ("differential mode oracle (default vs optional mode) + small "
             "reference model for sec_within, with hooks on chunker / "
             "rebuild_sec_within / SecFinder")
