"""C03 -- parsing is total: any text, any valid configuration, no exception."""

from ..common import CaseTimeout, cpu_timebox, short
from ..gen import configs as CF
from ..gen import soup

PROP = 'C03'
RULE = (
    "Texts: PLSS token soup (1-14 tokens from a ~170-token vocabulary incl. "
    "bare 'Section'/'§', colon-less sections, three-digit sections, Twp/Rge "
    "fragments, placeholders, trigger phrases, P.M.), damaged well-formed "
    "descriptions (token delete/duplicate/transpose, truncation at any "
    "character, colon stripping, line shuffling, direction dropping), "
    "unicode/control-character soup, special strings (empty, blank, lone "
    "keywords). Configurations: random valid assignments of the 16 settings "
    "(every layout, boolean tri-state, depths 1-3 with max >= min, default "
    "directions), passed as config text, Config object or parse() keywords. "
    "Entry points per case: PLSSDesc(text, config, [layout], parse_qq), "
    ".parse(commit=False, **keywords), .parse_tracts(**keywords), "
    "Tract(text, config, parse_qq=True), .parse(**keywords), .preprocess(), "
    "str()/repr(), deduce_layout(), quick_desc / pretty_desc / list_trs, "
    "find_twprge(preprocess=True), find_sec, TractList.from_multiple, "
    "TRSList(tracts). Refuted by any exception or an empty tract list. Separate "
    "family: invalid arguments must raise only the documented types. "
    "Non-trivial: text has a Twp/Rge-like and a section-like token, or a "
    "layout / colon mode / segment / sec_within is set. Distinct by (text, "
    "settings, channel)."
)
ASSUMPTIONS = [
    "Wrong-typed or out-of-range VALUES of known settings (qq_depth.abc, "
    "qq_depth.0, max < min, layout.foo) are neither documented as valid nor "
    "as rejected and are not generated.",
    "A bad default direction is allowed not to raise when no Twp/Rge needs "
    "it (lazy validation); only the exception type is restricted.",
    "A case exceeding 20 s CPU is handed to C16 (counted under "
    "discarded['slow']), not judged here.",
]
MIN_NONTRIVIAL = {'quick': 6000, 'thorough': 150000}
REQUIRED_MONITORS = ['boundary:PLSSDesc', 'boundary:PLSSDesc.parse',
                     'boundary:parse_tracts', 'boundary:Tract',
                     'boundary:Tract.parse', 'invalid-argument']


def plan(tier, seed):
    if tier == 'quick':
        return ([{'family': 'valid', 'n': 1500, 'i': i} for i in range(10)]
                + [{'family': 'invalid', 'n': 300, 'i': 0}])
    return ([{'family': 'valid', 'n': 12000, 'i': i} for i in range(32)]
            + [{'family': 'invalid', 'n': 3000, 'i': 0}])


def gen_case(rng):
    text, family = soup.gen_text(rng)
    st = CF.gen_settings(rng, density=rng.choice([0.0, 0.1, 0.25, 0.5]))
    if rng.random() < 0.08:
        st['wait_to_parse'] = True
    kw = CF.gen_settings(rng, density=rng.choice([0.0, 0.1, 0.3]))
    channel = rng.choice(['text', 'object', 'none'])
    init_layout = rng.choice([None, None, None] + list(CF.LAYOUTS))
    init_parse_qq = rng.choice([True, True, None, False])
    return {'text': text, 'family': family, 'settings': st, 'keywords': kw,
            'channel': channel, 'init_layout': init_layout,
            'init_parse_qq': init_parse_qq,
            'cfgtext': CF.to_text(st, rng)}


def run_valid(case, ctx, pytrs):
    text, st, kw = case['text'], case['settings'], case['keywords']
    mode_set = any(k in st or k in kw for k in
                   ('layout', 'sec_colon_required', 'sec_colon_cautious',
                    'segment', 'sec_within')) or case['init_layout']
    ctx.case([text, case['cfgtext'], kw, case['channel'], case['init_layout']],
             soup.looks_plss(text) or bool(mode_set),
             shape=case['family'].split(':')[0] + '|' + case['channel'],
             sample={'text': short(text, 160), 'config': case['cfgtext'],
                     'keywords': kw, 'layout': case['init_layout']})
    try:
        with cpu_timebox(20):
            with ctx.guard(case):
                if case['channel'] == 'text':
                    cfg = case['cfgtext']
                elif case['channel'] == 'object':
                    cfg = pytrs.Config(case['cfgtext'])
                else:
                    cfg = None
                d = pytrs.PLSSDesc(text, config=cfg,
                                   layout=case['init_layout'],
                                   parse_qq=case['init_parse_qq'])
                ctx.hit('boundary:PLSSDesc')
                if st.get('wait_to_parse') and cfg is not None:
                    d.parse()
                if len(d.tracts) < 1:
                    ctx.violation('no-tract', case,
                                  f"PLSSDesc({short(text, 80)!r}, config="
                                  f"{case['cfgtext']!r}) produced no tract")
                res = d.parse(commit=False, **CF.plss_parse_kwargs(kw))
                ctx.hit('boundary:PLSSDesc.parse')
                if len(res) < 1:
                    ctx.violation('no-tract', case,
                                  f"parse(commit=False, {kw}) returned no "
                                  f"tract")
                d.parse_tracts(**CF.tract_parse_kwargs(kw))
                ctx.hit('boundary:parse_tracts')
                d.preprocess()
                d.preprocess(commit=True, ocr_scrub=bool(kw.get('ocr_scrub')))
                d.deduce_layout()
                str(d), repr(d), d.quick_desc(), d.pretty_desc()
                d.quick_desc_short(), d.list_trs(), d.tracts_to_dict('trs', 'desc', 'lots_qqs')
                pytrs.find_twprge(text, preprocess=True)
                pytrs.find_sec(text)
                pytrs.TractList.from_multiple(d, d.tracts)
                pytrs.TRSList(d.tracts)
                tcfg = case['cfgtext'] if case['channel'] != 'none' else None
                t = pytrs.Tract(text, config=tcfg, parse_qq=True)
                ctx.hit('boundary:Tract')
                t.parse(**CF.tract_parse_kwargs(kw))
                t.parse(commit=False)
                ctx.hit('boundary:Tract.parse')
                t.preprocess()
                t.preprocess(clean_qq=True, commit=True)
                str(t), repr(t), t.ilots, t.lots_qqs, t.flags
    except CaseTimeout:
        ctx.discard('slow')


class _Weird:
    pass


def run_invalid(rng, ctx, pytrs):
    from pytrs.parser.config import (ConfigError, DefaultNSError,
                                     DefaultEWError)
    text = rng.choice(['T154N-R97W Sec 14: NE/4', 'Sec 14', '', 'NE/4',
                       'T154-R97 Sec 1: ALL'])
    kind = rng.choice(['nonstr-text', 'bad-config-type', 'unknown-setting',
                       'bad-direction-config', 'bad-direction-keyword',
                       'tract-bad-trs-type', 'config-ctor',
                       'bad-value-in-config', 'nonstr-direction-keyword'])
    case = {'invalid': kind, 'text': text}
    allowed, must_raise, fn = (), True, None
    if kind == 'nonstr-text':
        obj = rng.choice([None, 5, 3.5, b'T154N', ['T154N-R97W'], {'a': 1},
                          ('x',)])
        case['arg'] = repr(obj)
        allowed = (TypeError,)
        fn = lambda: pytrs.PLSSDesc(obj)
    elif kind == 'bad-config-type':
        obj = rng.choice([5, 3.5, ['clean_qq'], {'clean_qq': True}, b'n,w',
                          _Weird()])
        case['arg'] = repr(obj)[:40]
        allowed = (ConfigError,)
        target = rng.choice(['plss', 'tract', 'assign'])
        case['target'] = target
        if target == 'plss':
            fn = lambda: pytrs.PLSSDesc(text, config=obj)
        elif target == 'tract':
            fn = lambda: pytrs.Tract(text, config=obj)
        else:
            def fn():
                d = pytrs.PLSSDesc(text)
                d.config = obj
    elif kind == 'unknown-setting':
        name = rng.choice(['foo', 'cleanqq', 'parse_q', 'depth.2', 'north',
                           'segmented', 'sec_colon', 'qq_depth_mid.2',
                           'default_nw.n', 'x', 'copy-all', 'trs_desc'])
        prefix = rng.choice(['', 'n,w,', 'clean_qq,'])
        case['arg'] = prefix + name
        allowed = (ValueError,)
        target = rng.choice(['plss', 'tract', 'config'])
        case['target'] = target
        if target == 'plss':
            fn = lambda: pytrs.PLSSDesc(text, config=prefix + name)
        elif target == 'tract':
            fn = lambda: pytrs.Tract(text, config=prefix + name)
        else:
            fn = lambda: pytrs.Config(prefix + name)
    elif kind == 'bad-direction-config':
        which = rng.choice(['ns', 'ew'])
        val = rng.choice(['x', 'q', 'z', 'up', '7', '', ''])
        if which == 'ns' and val[:1] in ('n', 's'):
            val = 'x'
        sep = rng.choice('.=')
        case['arg'] = f"default_{which}{sep}{val}"
        allowed = (DefaultNSError,) if which == 'ns' else (DefaultEWError,)
        target = rng.choice(['plss', 'tract', 'config', 'from_kwargs'])
        case['target'] = target
        if target == 'plss':
            fn = lambda: pytrs.PLSSDesc(text, config=case['arg'])
        elif target == 'tract':
            fn = lambda: pytrs.Tract(text, config=case['arg'])
        elif target == 'config':
            fn = lambda: pytrs.Config(case['arg'])
        else:
            fn = lambda: pytrs.Config.from_kwargs(**{f"default_{which}": val})
    elif kind == 'bad-direction-keyword':
        which = rng.choice(['ns', 'ew'])
        val = rng.choice(['x', 'q', 'north-ish', '7'])
        case['arg'] = f"default_{which}={val!r}"
        allowed = (DefaultNSError, DefaultEWError)
        must_raise = False       # lazy validation is acceptable
        t2 = 'T154-R97 Sec 14: NE/4'
        def fn():
            d = pytrs.PLSSDesc(t2, wait_to_parse=True)
            d.parse(**{f"default_{which}": val})
    elif kind == 'bad-value-in-config':
        # A setting that wants a number (or a bool) given something else.
        # Rejecting it with ConfigError/ValueError is documented; accepting
        # it is tolerated; any other exception -- at creation or when the
        # tracts are parsed -- is not.
        item = rng.choice(['qq_depth.x', 'qq_depth_max.x', 'qq_depth_min=deep',
                           'qq_depth_min.2,qq_depth_max.three', 'qq_depth.1x'])
        extra = rng.choice(['parse_qq', 'parse_qq,clean_qq', 'parse_qq,n,w'])
        case['arg'] = f"{item},{extra}"
        allowed = (ConfigError, ValueError)
        must_raise = False
        target = rng.choice(['plss', 'tract', 'assign-then-parse'])
        case['target'] = target
        t3 = 'T154N-R97W Sec 14: N/2NE/4, Lot 1'
        if target == 'plss':
            fn = lambda: pytrs.PLSSDesc(t3, config=case['arg'])
        elif target == 'tract':
            fn = lambda: pytrs.Tract('N/2NE/4, Lot 1', config=case['arg'])
        else:
            def fn():
                d = pytrs.PLSSDesc(t3, wait_to_parse=True)
                d.config = case['arg']
                d.parse()
    elif kind == 'nonstr-direction-keyword':
        which = rng.choice(['ns', 'ew'])
        val = rng.choice([5, 2.5, ['n'], ('w',), b'n'])
        case['arg'] = f"default_{which}={val!r}"
        allowed = (DefaultNSError, DefaultEWError)
        must_raise = False
        target = rng.choice(['Tract.from_twprgesec', 'TRS.from_twprgesec',
                             'PLSSDesc.parse', 'find_twprge'])
        case['target'] = target
        kw = {f"default_{which}": val}
        if target == 'Tract.from_twprgesec':
            fn = lambda: pytrs.Tract.from_twprgesec('NE/4', 154, 97, 14, **kw)
        elif target == 'TRS.from_twprgesec':
            fn = lambda: pytrs.TRS.from_twprgesec(154, 97, 14, **kw)
        elif target == 'PLSSDesc.parse':
            fn = lambda: pytrs.PLSSDesc('T154-R97 Sec 14: NE/4',
                                        wait_to_parse=True).parse(**kw)
        else:
            fn = lambda: pytrs.find_twprge('T154-R97 Sec 14', preprocess=True,
                                           **kw)
    elif kind == 'tract-bad-trs-type':
        obj = rng.choice([5, 3.5, ['154n97w14'], b'154n97w14'])
        case['arg'] = repr(obj)
        allowed = (TypeError,)
        fn = lambda: pytrs.Tract(text, trs=obj)
    else:
        obj = rng.choice([5, ['n'], {'n': 1}, 2.0])
        case['arg'] = repr(obj)
        allowed = (ConfigError,)
        fn = lambda: pytrs.Config(obj)
    ctx.case(case, True, shape=f"invalid:{kind}", sample=case)
    ctx.hit('invalid-argument')
    try:
        fn()
    except allowed:
        return
    except Exception as e:
        ctx.violation('undocumented-exception-type', case,
                      f"{kind} {case.get('arg')}: raised {type(e).__name__}"
                      f"({short(str(e), 80)}), documented: "
                      f"{[a.__name__ for a in allowed]}")
        return
    if must_raise:
        ctx.violation('invalid-argument-accepted', case,
                      f"{kind} {case.get('arg')} was accepted without the "
                      f"documented {[a.__name__ for a in allowed]}")


def run_shard(shard, ctx):
    import pytrs
    import warnings
    warnings.simplefilter('ignore')
    rng = ctx.rng(shard['family'], shard['i'])
    if shard['family'] == 'invalid':
        for _ in range(shard['n']):
            run_invalid(rng, ctx, pytrs)
        return
    for _ in range(shard['n']):
        run_valid(gen_case(rng), ctx, pytrs)


def replay(case, ctx):
    import pytrs
    import warnings
    warnings.simplefilter('ignore')
    if 'invalid' in case:
        # Invalid-argument cases are tiny: re-run the whole family briefly.
        rng = ctx.rng('invalid', 0)
        for _ in range(400):
            run_invalid(rng, ctx, pytrs)
        return
    run_valid(case, ctx, pytrs)


MANIFEST_TEXT = (
    "Held on every execution observed: 15k (quick) to ~380k (thorough) "
    "hostile texts x random valid configurations x three configuration "
    "channels driven through every init/parse entry point of PLSSDesc and "
    "Tract inside an exception guard; invalid arguments checked against the "
    "documented exception types. Exploration: totality over all strings "
    "cannot be shown by running finitely many.")
LEVEL_NOTE = (
    "Trusts the generators' notion of a valid configuration (pv/gen/"
    "configs.py) and the documented-exception table in run_invalid.")
TECHNIQUE = ("exception monitor at the API boundary over hostile workloads "
             "(token soup, damaged descriptions, unicode) x configuration "
             "channels")
