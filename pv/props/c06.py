"""C06 -- tract parsing is compositional."""

from ..common import short
from ..gen import blocks as B
from ..oracles import elided as E

import re

PROP = 'C06'
_NUM = re.compile(r'[0-9]+')
RULE = (
    "Descriptions of 1-6 elements {single lot | lot range | lot list | lot "
    "with (acreage)/[acreage] | aliquot-of-lot(s) | aliquot chain in plain "
    "spellings | ALL} joined by one separator from {', ', '; ', ',\\n', "
    "';\\n', '\\n'} under configs {default, suppress_lot_divs, qq_depth.1, "
    "qq_depth_min.3, clean_qq, qq_depth_min.1+max.2, break_halves}, the "
    "settings handed over by config string, by parse() keywords, by "
    "keywords over a Tract config that says the opposite, or by keywords "
    "after two committed parses of the same Tract under other settings "
    "(depth 1, divisions suppressed). Divided lots carry stated acreages in "
    "a third of the cases (direct model: the acreage belongs to the lot "
    "whether or not the division is reported). Oracle: "
    "lots / qqs of the whole == concatenation of what each element yields "
    "alone (the library itself on the element; lots, lot ranges and lot "
    "divisions additionally against a direct model), lots_qqs == lots + qqs, "
    "ilots mirrors lots, lot_acres == union of the elements' (when each lot "
    "carries at most one acreage), dup_lot / dup_qq warning present <=> the "
    "concatenation has a repeat. On failure the harness re-checks with only "
    "the bare line breaks after aliquot chains replaced by ',\\n' "
    "(mechanism D20) and with the ALL elements removed (mechanism "
    "ALL-not-last) to key the known findings. Non-trivial: >= 2 elements of "
    ">= 2 kinds. Distinct by (text, config, channel)."
)
ASSUMPTIONS = [
    "Aliquot chains use the plain spellings (slash, symbol, fraction); the "
    "full spelling table is C07's.",
    "Acreage comparison only when no lot carries two acreages.",
]
MIN_NONTRIVIAL = {'quick': 15000, 'thorough': 350000}
REQUIRED_MONITORS = ['boundary:whole', 'boundary:element', 'model:element',
                     'dup-flag', 'channel:config', 'channel:keyword',
                     'channel:contrary-config', 'channel:reparse']

SEPS = [', ', '; ', ',\n', ';\n', '\n']
CONFIGS = ['', '', 'suppress_lot_divs', 'qq_depth.1', 'qq_depth_min.3',
           'clean_qq', 'qq_depth_min.1,qq_depth_max.2', 'break_halves']


def plan(tier, seed):
    if tier == 'quick':
        return [{'family': 'compose', 'n': 3000, 'i': i} for i in range(8)]
    return [{'family': 'compose', 'n': 25000, 'i': i} for i in range(24)]


def _aliq_component(rng):
    c = rng.choice(B.COMPONENTS)
    sp = dict((tag, txt) for txt, tag in B.component_spellings(c))
    return c, sp[rng.choice(['slash', 'slash', 'sym', 'frac-sp'])]


def gen_element(rng):
    """(kind, text, model) -- model is {'lots': [...]} where trivial."""
    k = rng.choice(['lot', 'lotrange', 'lotlist', 'lotacre', 'lotdiv',
                    'aliq', 'aliq', 'aliq', 'ALL'])
    if k == 'ALL' and rng.random() < 0.6:
        k = 'aliq'
    if k == 'lot':
        n = rng.randint(1, 30)
        return k, f"Lot {n}", {'lots': [f"L{n}"]}
    if k == 'lotrange':
        a = rng.randint(1, 26)
        b = a + rng.randint(1, 4)
        j = rng.choice([' - ', '-', ' through ', ' thru '])
        return k, f"Lots {a}{j}{b}", {'lots': [f"L{n}" for n in range(a, b + 1)]}
    if k == 'lotlist':
        a = rng.randint(1, 20)
        nums = [a, a + rng.randint(1, 3), a + rng.randint(4, 8)]
        j = rng.choice([' and ', ', and ', ' & '])
        return k, f"Lots {nums[0]}, {nums[1]}{j}{nums[2]}", \
            {'lots': [f"L{n}" for n in nums]}
    if k == 'lotacre':
        n = rng.randint(1, 30)
        ac = rng.choice([f"{rng.randint(10, 45)}.{rng.randint(0, 99):02d}",
                         f"{rng.randint(10, 45)}.{rng.randint(0, 99):02d}",
                         f".{rng.randint(10, 99)}", f"{rng.randint(1, 9)}",
                         f"0.{rng.randint(1, 9)}"])
        br = rng.choice(['()', '[]'])
        return k, f"Lot {n}{rng.choice(['', ' '])}{br[0]}{ac}{br[1]}", \
            {'lots': [f"L{n}"], 'acres': {f"L{n}": ac}}
    if k == 'lotdiv':
        comps = [_aliq_component(rng) for _ in range(rng.choice([1, 1, 2]))]
        atxt = ''.join(t for _, t in comps) if all(
            '/' in t or '½' in t or '¼' in t for _, t in comps) \
            else ' '.join(t for _, t in comps)
        name = ''.join(c + '2' if c in B.HALVES else c for c, _ in comps)
        a = rng.randint(1, 24)
        form = rng.choice(['one', 'range', 'and'])
        if form == 'one':
            nums, ltxt = [a], f"Lot {a}"
        elif form == 'range':
            nums, ltxt = list(range(a, a + 3)), f"Lots {a} - {a + 2}"
        else:
            nums, ltxt = [a, a + 3], f"Lots {a} and {a + 3}"
        model = {'lots': [f"{name} of L{n}" for n in nums],
                 'lots_suppressed': [f"L{n}" for n in nums],
                 'ltxt': ltxt, 'nums': nums}
        written = ltxt
        if rng.random() < 0.3:
            # the divided lots carry stated acreages (the written numbers
            # only: a range names its two ends); they belong to the lot
            # whether or not the division is reported
            acres = {}

            def with_acres(m):
                ac = f"{rng.randint(10, 45)}.{rng.randint(0, 99):02d}"
                if rng.random() < 0.7:
                    acres[f"L{m.group(0)}"] = ac
                    br = rng.choice(['()', '[]'])
                    return f"{m.group(0)}{rng.choice(['', ' '])}{br[0]}{ac}{br[1]}"
                return m.group(0)
            written = _NUM.sub(with_acres, ltxt)
            model['acres'] = acres
        return k, f"{atxt} of {written}", model
    if k == 'ALL':
        return k, 'ALL', None
    n = rng.choice([1, 1, 2, 2, 3])
    comps = [_aliq_component(rng) for _ in range(n)]
    style_join = '' if all(('/' in t or '½' in t or '¼' in t) and ' ' not in t
                           for _, t in comps) else ' '
    if rng.random() < 0.15:
        style_join = rng.choice([' of ', ' of the '])
    return 'aliq', style_join.join(t for _, t in comps), None


_BOOLS = ('clean_qq', 'suppress_lot_divs', 'break_halves')
CHANNELS = ['config', 'config', 'config', 'keyword', 'contrary-config',
            'reparse']
_CHANNEL = ['config']       # channel of the case being judged


def _keywords(cfg):
    """The settings of a config string as Tract.parse() keywords, every
    boolean given explicitly."""
    kw = {b: False for b in _BOOLS}
    for item in filter(None, cfg.split(',')):
        name, _, val = item.partition('.')
        kw[name] = int(val) if val else True
    return kw


def parse(pytrs, text, cfg):
    """Parse `text` under the settings `cfg`, handed over through the
    channel of the current case: the config string; keywords of parse(); or
    keywords of parse() on a Tract whose own config says the opposite for
    every boolean (an explicit keyword, False included, wins)."""
    channel = _CHANNEL[0]
    if channel == 'config':
        t = pytrs.Tract(text, parse_qq=True, config=cfg or None)
    else:
        kw = _keywords(cfg)
        own = None
        if channel in ('contrary-config', 'reparse'):
            own = ','.join(f"{b}.{not kw[b]}" for b in _BOOLS)
        t = pytrs.Tract(text, config=own)
        if channel == 'reparse':
            # two committed parses under other settings first (depth 1 and
            # divisions suppressed make repeats, hence dup warnings, likely);
            # the committed parse that follows replaces all of it
            t.parse(qq_depth=1, suppress_lot_divs=True)
            t.parse(qq_depth=1, suppress_lot_divs=True)
        if len(text) % 3 == 0:
            # a what-if parse first (the opposite booleans, another depth),
            # not committed: the committed parse is unaffected by it
            t.parse(commit=False, qq_depth=1,
                    **{b: not kw[b] for b in _BOOLS})
        t.parse(**kw)
        if len(text) % 3 == 1:
            # what a what-if parse RETURNS is the result under the settings
            # it was given, not what the tract holds
            other = dict(kw)
            other['suppress_lot_divs'] = not kw.get('suppress_lot_divs', False)
            u = pytrs.Tract(text, config=own)
            u.parse(**other)
            ret = t.parse(commit=False, **other)
            if list(ret) != list(u.lots) + list(u.qqs):
                _WHATIF.append((text, other, list(ret),
                                list(u.lots) + list(u.qqs)))
    return {'lots': list(t.lots), 'qqs': list(t.qqs),
            'lots_qqs': list(t.lots_qqs), 'ilots': list(t.ilots),
            'acres': dict(t.lot_acres), 'w_flags': list(t.w_flags),
            'pp': t.pp_desc}


_WHATIF = []


def compose_problem(pytrs, elements, sep, cfg, ctx=None):
    """None, or (kind, detail) when the whole is not the concatenation."""
    text = sep.join(txt for _, txt, _ in elements)
    whole = parse(pytrs, text, cfg)
    parts = [parse(pytrs, txt, cfg) for _, txt, _ in elements]
    if ctx is not None:
        ctx.hit('boundary:whole')
        ctx.hit('boundary:element', len(parts))
    elots = sum((p['lots'] for p in parts), [])
    eqqs = sum((p['qqs'] for p in parts), [])
    if whole['lots'] != elots:
        return 'lots', (f"lots of {text!r} are {whole['lots']}, the elements "
                        f"alone give {elots}")
    if whole['qqs'] != eqqs:
        return 'qqs', (f"aliquots of {text!r} are {whole['qqs']}, the "
                       f"elements alone give {eqqs}")
    if whole['lots_qqs'] != elots + eqqs:
        return 'lots_qqs', "lots_qqs is not lots followed by qqs"
    try:
        il = [int(x.split('L')[-1]) for x in elots]
    except ValueError:
        il = None
    if il is not None and whole['ilots'] != il:
        return 'ilots', f"ilots {whole['ilots']} do not mirror lots {elots}"
    keys = sum((list(p['acres']) for p in parts), [])
    if len(set(keys)) == len(keys):
        eac = {}
        for p in parts:
            eac.update(p['acres'])
        if whole['acres'] != eac:
            return 'acres', (f"lot acreages {whole['acres']}, the elements "
                             f"alone give {eac}")
    if ctx is not None:
        ctx.hit('dup-flag')
    duplot = len(set(elots)) < len(elots)
    dupqq = len(set(eqqs)) < len(eqqs)
    has_lot = any(f.startswith('dup_lot<') for f in whole['w_flags'])
    has_qq = any(f.startswith('dup_qq<') for f in whole['w_flags'])
    if has_lot != duplot:
        return 'dup_lot-flag', (f"a lot occurs twice: {duplot}; dup_lot "
                                f"warning present: {has_lot} ({elots})")
    if has_qq != dupqq:
        return 'dup_qq-flag', (f"an aliquot occurs twice: {dupqq}; dup_qq "
                               f"warning present: {has_qq}")
    return None


def check_case(case, ctx, pytrs):
    elements = [tuple(e) for e in case['elements']]
    sep, cfg = case['sep'], case['cfg']
    channel = _CHANNEL[0] = case.get('channel', 'config')
    kinds = [k for k, _, _ in elements]
    text = sep.join(txt for _, txt, _ in elements)
    ctx.case([text, cfg, channel],
             len(elements) >= 2 and len(set(kinds)) >= 2,
             shape=f"n={len(elements)}|sep={sep!r}|{cfg or 'default'}"
                   f"|{channel}",
             sample={'text': text, 'config': cfg, 'kinds': kinds,
                     'channel': channel})
    ctx.hit(f'channel:{channel}')
    with ctx.guard(case):
        # Direct model for single elements where it is trivial.
        for kind, txt, model in elements:
            if model is None:
                continue
            ctx.hit('model:element')
            got = parse(pytrs, txt, cfg)
            exp = model['lots']
            if 'suppress_lot_divs' in cfg and 'lots_suppressed' in model:
                exp = model['lots_suppressed']
            if got['lots'] != exp or got['qqs']:
                ctx.violation('element-model', case,
                              f"{txt!r} (config {cfg!r}) alone gives lots "
                              f"{got['lots']} qqs {got['qqs']}, model {exp}",
                              dedup=kind)
                return
            if 'acres' in model and got['acres'] != model['acres']:
                ctx.violation('element-acreage', case,
                              f"{txt!r} alone gives acreages {got['acres']}, "
                              f"model {model['acres']}", dedup=kind)
                return
        del _WHATIF[:]
        prob = compose_problem(pytrs, elements, sep, cfg, ctx)
        if _WHATIF:
            ctx.hit('what-if-return-value')
            txt_, other, ret, want = _WHATIF[0]
            ctx.violation('what-if-return-value', case,
                          f"Tract({txt_!r}).parse(commit=False, {other}) "
                          f"returned {ret}; a tract parsed with those "
                          f"settings holds {want}", dedup='whatif')
            return
        if prob is None:
            return
        # Counterfactual diagnosis for the two recorded mechanisms: which
        # of the two rendering changes (alone or together) make the law
        # hold again?
        def holds(elems, comma_after_aliquot):
            if not elems:
                return True
            if not comma_after_aliquot:
                return compose_problem(pytrs, elems, sep, cfg) is None
            parts = []
            for i, (k, txt, _) in enumerate(elems):
                parts.append(txt)
                if i < len(elems) - 1:
                    # D20: only a bare line break directly after an
                    # aliquot chain / lot division / ALL gets a comma.
                    parts.append(',\n' if k in ('aliq', 'ALL', 'lotdiv')
                                 else '\n')
            whole = parse(pytrs, ''.join(parts), cfg)
            ps = [parse(pytrs, t, cfg) for _, t, _ in elems]
            return (whole['lots'] == sum((p['lots'] for p in ps), [])
                    and whole['qqs'] == sum((p['qqs'] for p in ps), []))

        diag = {}
        # the recorded mechanism concerns an ALL that something follows;
        # an ALL that ends the description stays in the counterfactual
        no_all = [e for i, e in enumerate(elements)
                  if not (e[0] == 'ALL' and i < len(elements) - 1)]
        has_all = len(no_all) < len(elements)
        bare = sep == '\n' and any(
            k in ('aliq', 'ALL', 'lotdiv') for k in kinds[:-1])
        if bare:
            diag['holds_with_comma_before_linebreak'] = holds(elements, True)
        if has_all:
            diag['holds_without_ALL'] = holds(no_all, False)
        if bare and has_all:
            diag['holds_with_both_changes'] = holds(no_all, True)
        ctx.violation(f'not-compositional:{prob[0]}', case, prob[1],
                      dedup=f"{prob[0]}|{sep!r}|{'+'.join(sorted(set(kinds)))}",
                      diagnosis=diag, sep=sep, kinds=kinds)


def gen_case(rng):
    n = rng.choice([1, 2, 2, 3, 3, 4, 5, 6])
    elements = [gen_element(rng) for _ in range(n)]
    divs = [e for e in elements if e[0] == 'lotdiv']
    if divs and rng.random() < 0.3:
        # the very same lots written once more further on -- plainly, or
        # under another division ('N/2 of Lot 1, ..., S/2 of Lot 1')
        _, _, m = rng.choice(divs)
        if rng.random() < 0.5:
            again = ('lot', m['ltxt'], {'lots': [f"L{x}" for x in m['nums']]})
        else:
            h = rng.choice(B.HALVES)
            again = ('lotdiv', f"{h}/2 of {m['ltxt']}",
                     {'lots': [f"{h}2 of L{x}" for x in m['nums']],
                      'lots_suppressed': [f"L{x}" for x in m['nums']],
                      'ltxt': m['ltxt'], 'nums': m['nums']})
        elements.insert(rng.randint(elements.index(
            next(e for e in elements if e[2] is m)) + 1, len(elements)), again)
    return {'elements': [list(e) for e in elements],
            'sep': rng.choice(SEPS), 'cfg': rng.choice(CONFIGS),
            'channel': rng.choice(CHANNELS)}


def run_shard(shard, ctx):
    import pytrs
    import warnings
    warnings.simplefilter('ignore')
    rng = ctx.rng(shard['family'], shard['i'])
    for _ in range(shard['n']):
        check_case(gen_case(rng), ctx, pytrs)


def replay(case, ctx):
    import pytrs
    import warnings
    warnings.simplefilter('ignore')
    check_case(case, ctx, pytrs)


def classify(v):
    """
    D20  'bare-linebreak-after-aliquot-fuses': the law holds again once the
         bare line breaks that directly follow an aliquot chain get a comma;
    ALL  'ALL-not-last-element': it holds again once the ALL elements that
         something follows are removed (ALL is only recognised when nothing
         follows it; an ALL that ends the description is kept);
    both ids when only the two changes together restore it.
    """
    if not v['kind'].startswith('not-compositional'):
        return None
    d = v.get('diagnosis') or {}
    if d.get('holds_with_comma_before_linebreak'):
        return 'bare-linebreak-after-aliquot-fuses'
    if d.get('holds_without_ALL'):
        return 'ALL-not-last-element'
    if d.get('holds_with_both_changes'):
        return ['bare-linebreak-after-aliquot-fuses', 'ALL-not-last-element']
    return None


MANIFEST_TEXT = (
    "Held (up to the two recorded findings) on every description observed: "
    "24k (quick) / ~600k (thorough) element sequences x separators x configs, "
    "the whole compared with the concatenation of its elements parsed alone "
    "plus direct models for lots, ranges, divisions, acreages and the "
    "duplicate warning; failures are diagnosed counterfactually so that only "
    "the recorded mechanisms are reported as known. Exploration.")
LEVEL_NOTE = ("Metamorphic: the per-element answer comes from the library "
              "itself (C02/C05/C07 judge elements in isolation); trivial "
              "elements are also judged by a direct model.")
TECHNIQUE = ("metamorphic composition-law oracle at the Tract boundary with "
             "counterfactual re-execution to attribute failures to a "
             "mechanism")
