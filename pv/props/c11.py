"""C11 -- copy_all, forced or as fallback, keeps the whole text in one tract."""

import re

from ..common import CaseTimeout, cpu_timebox, short
from ..gen import plss as G
from ..gen import soup
from ..oracles import trs as O

PROP = 'C11'
RULE = (
    "(1) forced: any text (token soup, damaged / well-formed descriptions, "
    "unicode) with copy_all requested through each channel -- "
    "PLSSDesc(text, layout='copy_all'), PLSSDesc(text, config='copy_all'), "
    "PLSSDesc(text).parse(layout='copy_all', commit=False), .config = "
    "'copy_all' or .layout = 'copy_all' assigned to an existing (unparsed or "
    "parsed) object followed by parse(), each optionally "
    "combined with segment / sec_within / colon modes: exactly one tract, "
    "desc == the entire preprocessed text, current_layout == 'copy_all'. "
    "(2) fallback: well-formed C01 descriptions with every Twp/Rge deleted, "
    "or every section reference deleted, or (TRS_desc / S_desc_TR) every "
    "colon removed under sec_colon_required -- the layout deduced, or (no "
    "section left: any of the four; colons missing: the description's own) "
    "dictated by keyword / config / parse argument: exactly one tract "
    "holding the whole preprocessed text (compared after stripping separators and "
    "trailing connective words), with an error flag whenever its "
    "Twp/Rge/Sec has an error component. (3) every parse of every case: no "
    "two tracts both carry the complete preprocessed text. Non-trivial: the "
    "text contains a Twp/Rge-like and a section-like token (forced) or is a "
    "fallback case. Distinct by (text, channel, extra config)."
)
ASSUMPTIONS = [
    "'Entire text' is the library's own preprocessed text (pp_desc / "
    "preprocess()), not the raw input.",
    "For a fallback (not forced) the parser's normal description clean-up "
    "runs, so both sides are compared after stripping leading/trailing "
    "separator characters and trailing connective words; no inner word may "
    "be missing. With `segment` the one-tract clause is not applied.",
]
MIN_NONTRIVIAL = {'quick': 4000, 'thorough': 100000}
REQUIRED_MONITORS = ['forced:init-keyword', 'forced:config',
                     'forced:config-object-reused',
                     'forced:parse-argument', 'forced:config-assigned-later',
                     'forced:layout-attribute-later',
                     'fallback:dictated-layout', 'fallback', 'no-two-full',
                     'forced:keyword-over-config-layout',
                     'fallback:reparse-after-ocr', 'fallback:exact',
                     'fallback:segment-whole-text',
                     'fallback:required-by-keyword',
                     'hook:ChunkParser.__init__', 'hook:parse_safe']

EXTRA_CFG = ['', '', '', 'segment', 'sec_within', 'segment,sec_within',
             'sec_colon_required', 'sec_colon_cautious', 'ocr_scrub',
             's,e', 'parse_qq', 'clean_qq,parse_qq']


LAYOUT_CFG = ['TRS_desc', 'desc_STR,parse_qq', 'layout.S_desc_TR,n,w',
              'TR_desc_S,segment']


def plan(tier, seed):
    if tier == 'quick':
        return ([{'family': 'forced', 'n': 700, 'i': i} for i in range(8)]
                + [{'family': 'fallback', 'n': 500, 'i': i} for i in range(6)])
    return ([{'family': 'forced', 'n': 5000, 'i': i} for i in range(24)]
            + [{'family': 'fallback', 'n': 4000, 'i': i} for i in range(16)])


_SEP = ',;:-–—\t\n .'
_CULL = re.compile(r'(\s+(the|all in|all of|all|of|in|and))+$', re.I)


def loose(s):
    """Strip what a description clean-up may strip (own implementation)."""
    prev = None
    while s != prev:
        prev = s
        s = s.strip(_SEP)
        s = _CULL.sub('', ' ' + s)[1:] if s else s
    return re.sub(r'\s+', ' ', s)


def hand_offs(rec):
    """{chunk text: number of hand-offs to the parent} for the last parse."""
    out = {}
    for e in rec.of('hand_off'):
        out[e['text']] = out.get(e['text'], 0) + 1
    return out


def check_no_two_full(tracts, pp, case, ctx, label):
    ctx.hit('no-two-full')
    full = [t for t in tracts if t.desc == pp]
    if len(full) >= 2 and pp.strip():
        ctx.violation('two-tracts-carry-complete-text', case,
                      f"{label}: {len(full)} tracts each hold the complete "
                      f"text {short(pp, 80)!r}: {[t.trs for t in tracts]}",
                      dedup=label.split(':')[0])
        return True
    return False


def run_forced(case, ctx, rec, pytrs):
    text, extra, channel = case['text'], case['extra'], case['channel']
    ctx.case([text, extra, channel], soup.looks_plss(text),
             shape=f"forced:{channel}|{extra or '-'}",
             sample={'text': short(text, 140), 'channel': channel,
                     'extra_config': extra})
    try:
        with cpu_timebox(20):
            with ctx.guard(case):
                rec.reset()
                if channel == 'init-keyword':
                    d = pytrs.PLSSDesc(text, layout='copy_all',
                                       config=extra or None)
                    tracts, pp, cur = d.tracts, d.pp_desc, d.current_layout
                elif channel == 'config':
                    cfg = 'copy_all' + (',' + extra if extra else '')
                    d = pytrs.PLSSDesc(text, config=cfg)
                    tracts, pp, cur = d.tracts, d.pp_desc, d.current_layout
                elif channel == 'config-object-reused':
                    # one Config object shared by two descriptions
                    cfg = pytrs.Config('copy_all' + (',' + extra if extra else ''))
                    pytrs.PLSSDesc('T154N-R97W Sec 14: NE/4, Sec 15: W/2',
                                   config=cfg).parse()
                    rec.reset()
                    d = pytrs.PLSSDesc(text, config=cfg)
                    tracts, pp, cur = d.tracts, d.pp_desc, d.current_layout
                elif channel == 'config-assigned-later':
                    # the object exists (unparsed, or parsed with a deduced
                    # layout) before copy_all is asked for through .config
                    d = pytrs.PLSSDesc(text, config=extra or None,
                                       wait_to_parse=len(text) % 2 == 0)
                    d.config = (pytrs.Config('n,w,copy_all')
                                if len(text) % 3 == 0 else 'copy_all')
                    rec.reset()
                    d.parse()
                    tracts, pp, cur = d.tracts, d.pp_desc, d.current_layout
                elif channel == 'layout-attribute-later':
                    d = pytrs.PLSSDesc(text, config=extra or None,
                                       wait_to_parse=len(text) % 2 == 0)
                    d.layout = 'copy_all'
                    rec.reset()
                    d.parse()
                    tracts, pp, cur = d.tracts, d.pp_desc, d.current_layout
                else:
                    d = pytrs.PLSSDesc(text, config=extra or None)
                    rec.reset()
                    tracts = d.parse(layout='copy_all', commit=False)
                    pp, cur = d.preprocess(), 'copy_all'
                ctx.hit(f'forced:{channel}')
                if extra in LAYOUT_CFG:
                    ctx.hit('forced:keyword-over-config-layout')
                handed = [e['layout'] for e in rec.of('plssparser_init')]
                chunk_layouts = [e['layout'] for e in rec.of('chunk_init')]
                wit = {'layout_to_PLSSParser': handed,
                       'layout_to_ChunkParser': chunk_layouts,
                       'hand_offs': list(hand_offs(rec).values())}
                if len(tracts) != 1:
                    ctx.violation(
                        'forced-copy_all-not-one-tract', case,
                        f"copy_all via {channel} (+{extra!r}) on "
                        f"{short(text, 80)!r} gave {len(tracts)} tracts "
                        f"{[(t.trs, short(t.desc, 30)) for t in tracts][:4]}",
                        dedup=channel, witness=wit)
                elif tracts[0].desc != pp:
                    ctx.violation(
                        'forced-copy_all-not-entire-text', case,
                        f"copy_all via {channel} (+{extra!r}): desc "
                        f"{short(tracts[0].desc, 100)!r} != preprocessed text "
                        f"{short(pp, 100)!r}", dedup=channel, witness=wit)
                elif cur != 'copy_all':
                    ctx.violation(
                        'forced-copy_all-layout-not-reported', case,
                        f"copy_all via {channel}: current_layout == {cur!r}",
                        dedup=channel, witness=wit)
                check_no_two_full(tracts, pp, case, ctx, f"forced:{channel}")
                # The same text parsed with the deduced layout.
                d2 = pytrs.PLSSDesc(text, config=extra or None)
                check_no_two_full(d2.tracts, d2.pp_desc, case, ctx, 'deduced')
    except CaseTimeout:
        ctx.discard('slow')


def gen_fallback(rng):
    kind = rng.choice(['no-twprge', 'no-section', 'colon-required'])
    if kind == 'colon-required':
        base = G.gen_case(rng, layout=rng.choice(['TRS_desc', 'S_desc_TR']),
                          max_groups=2, max_secs=2)
        # the colon is dropped, or mistyped as another punctuation mark
        text = base['text'].replace(':', rng.choice(['', '', '', ';', ',',
                                                     ' ;']))
        cfg = rng.choice(['sec_colon_required', 'sec_colon_required',
                          'sec_colon_required,sec_within',
                          'sec_within,sec_colon_required,parse_qq',
                          'sec_colon_required,sec_colon_cautious'])
    else:
        base = G.gen_case(rng, max_groups=2, max_secs=2)
        drop = 'twprge' if kind == 'no-twprge' else 'sec'
        text = base['text']
        for a, b, k in sorted(base['spans'], reverse=True):
            if k == drop:
                text = text[:a] + text[b:]
        cfg = rng.choice(['', '', 'sec_within', 'sec_colon_cautious',
                          'parse_qq', 'segment', 'segment,sec_within'])
    case = {'fallback': kind, 'text': text, 'cfg': cfg,
            'layout': base['layout']}
    r = rng.random()
    if 'segment' not in cfg and (
            (kind == 'no-section' and r >= 0.6)
            or (kind == 'colon-required' and r >= 0.7)):
        # a meaningful layout is dictated (any of the four when no section
        # is left; the description's own when only the colons are missing):
        # still nothing can be matched, the fallback is the only option
        case['dictated'] = (rng.choice(G.LAYOUTS) if kind == 'no-section'
                            else base['layout'])
        case['dictated_by'] = rng.choice(['keyword', 'config', 'argument'])
    elif kind == 'colon-required' and r < 0.3:
        case['how'] = 'required-by-keyword-over-cautious'
    elif kind == 'no-twprge' and r < 0.4:
        # every Twp/Rge present, but legible only to the OCR scrubber
        t2 = base['text']
        for a, b, k in sorted(base['spans'], reverse=True):
            if k == 'twprge':
                t2 = t2[:a] + rng.choice(['Tl5lN-RIOW', 'TI54N-R9lW',
                                          'Tl0lS-RlOE']) + t2[b:]
        case.update(text=t2, how='reparse-after-ocr', cfg='')
    return case


def run_fallback(case, ctx, rec, pytrs):
    text, cfg = case['text'], case['cfg']
    ctx.case([text, cfg], True, shape=f"fallback:{case['fallback']}|{case['layout']}",
             sample={'text': short(text, 140), 'config': cfg,
                     'kind': case['fallback']})
    with ctx.guard(case):
        rec.reset()
        how = case.get('how')
        if how == 'reparse-after-ocr':
            # First parsed with ocr_scrub (Twp/Rge's found, a layout deduced),
            # then parsed again without it: no Twp/Rge is left, the fallback
            # is the only option -- whatever the object parsed before.
            d = pytrs.PLSSDesc(text, config='ocr_scrub')
            d.parse(ocr_scrub=False)
            ctx.hit('fallback:reparse-after-ocr')
        elif how == 'required-by-keyword-over-cautious':
            d = pytrs.PLSSDesc(text, config='sec_colon_cautious',
                               wait_to_parse=True)
            d.parse(sec_colon_required=True)
            ctx.hit('fallback:required-by-keyword')
        elif case.get('dictated'):
            lay, by = case['dictated'], case['dictated_by']
            ctx.hit('fallback:dictated-layout')
            if by == 'keyword':
                d = pytrs.PLSSDesc(text, layout=lay, config=cfg or None)
            elif by == 'config':
                d = pytrs.PLSSDesc(text, config=','.join(filter(None, [cfg, lay])))
            else:
                d = pytrs.PLSSDesc(text, config=cfg or None,
                                   wait_to_parse=True)
                d.parse(layout=lay)
        else:
            if case['fallback'] == 'colon-required' and len(text) % 2:
                # the same text read leniently a moment ago (default and
                # cautious): the strict reading is none the wiser for it
                ctx.hit('fallback:lenient-first')
                pytrs.PLSSDesc(text)
                pytrs.PLSSDesc(text, config='sec_colon_cautious')
            d = pytrs.PLSSDesc(text, config=cfg or None)
        ctx.hit('fallback')
        pp = d.pp_desc
        wit = {'hand_offs': hand_offs(rec),
               'chunk_layouts': [e['layout'] for e in rec.of('chunk_init')]}
        if check_no_two_full(d.tracts, pp, case, ctx, 'fallback'):
            return
        deduced0 = [e['layout'] for e in rec.of('deduce_layout')][:1]
        if 'segment' in (cfg or '') and deduced0 != ['copy_all']:
            # Segmenting: each chunk falls back on its own (ASSUMPTIONS).
            # Only when copy_all is deduced for the text as a whole does the
            # one-tract clause apply under `segment` too.
            ctx.hit('fallback:segment-per-chunk')
            return
        if 'segment' in (cfg or ''):
            ctx.hit('fallback:segment-whole-text')
        if len(d.tracts) != 1:
            ctx.violation(
                'fallback-not-one-tract', case,
                f"{case['fallback']}: {short(text, 100)!r} (config {cfg!r}) "
                f"gave {len(d.tracts)} tracts "
                f"{[(t.trs, short(t.desc, 30)) for t in d.tracts][:4]}",
                dedup=case['fallback'], witness=wit)
            return
        t = d.tracts[0]
        deduced = [e['layout'] for e in rec.of('deduce_layout')]
        if how is None and deduced and deduced[0] == 'copy_all':
            # copy_all deduced for the text as a whole (no Twp/Rge or no
            # section anywhere): the description is the preprocessed text
            # to the letter, nothing trimmed.
            ctx.hit('fallback:exact')
            if t.desc != pp:
                ctx.violation(
                    'fallback-not-entire-text', case,
                    f"{case['fallback']} (copy_all deduced for the whole "
                    f"text): desc {short(t.desc, 120)!r} != preprocessed text "
                    f"{short(pp, 120)!r}", dedup='exact', witness=wit)
        if loose(t.desc) != loose(pp):
            ctx.violation(
                'fallback-not-entire-text', case,
                f"{case['fallback']}: desc {short(t.desc, 120)!r} is not the "
                f"entire preprocessed text {short(pp, 120)!r}",
                dedup=case['fallback'], witness=wit)
        if O.has_error_component(t.trs) and not d.e_flags:
            ctx.violation(
                'fallback-without-error-flag', case,
                f"{case['fallback']}: fallback tract {t.trs} has an error "
                f"component but e_flags is empty", dedup=case['fallback'])
        if d.desc_is_flawed != bool(d.e_flags):
            ctx.violation('flawed-mismatch', case, "desc_is_flawed != "
                          "bool(e_flags)")


def _setup(ctx):
    import pytrs
    import warnings
    from ..monitors import plss_hooks
    warnings.simplefilter('ignore')
    rec = plss_hooks.install(ctx, scrubbers=False)
    return pytrs, rec


def run_shard(shard, ctx):
    pytrs, rec = _setup(ctx)
    rng = ctx.rng(shard['family'], shard['i'])
    for _ in range(shard['n']):
        if shard['family'] == 'forced':
            text, fam = soup.gen_text(rng)
            case = {'text': text, 'family': fam,
                    'extra': rng.choice(EXTRA_CFG),
                    'channel': rng.choice(['init-keyword', 'config',
                                           'parse-argument',
                                           'config-object-reused',
                                           'config-assigned-later',
                                           'layout-attribute-later'])}
            if case['channel'] in ('init-keyword', 'parse-argument') \
                    and rng.random() < 0.2:
                # the config names another layout: the keyword / argument
                # still decides
                case['extra'] = rng.choice(LAYOUT_CFG)
            run_forced(case, ctx, rec, pytrs)
        else:
            run_fallback(gen_fallback(rng), ctx, rec, pytrs)


def replay(case, ctx):
    pytrs, rec = _setup(ctx)
    if 'fallback' in case:
        run_fallback(case, ctx, rec, pytrs)
    else:
        run_forced(case, ctx, rec, pytrs)


MANIFEST_TEXT = (
    "Held on every execution observed: copy_all requested through the init "
    "keyword, the config string and the parse() argument on thousands of "
    "hostile and well-formed texts (also combined with segment / sec_within "
    "/ colon modes), and fallback cases built by deleting every Twp/Rge, "
    "every section reference or every colon; hooks record the layout "
    "handed PLSSDesc -> PLSSParser -> ChunkParser and the hand-offs per "
    "chunk for the witness. Exploration.")
LEVEL_NOTE = ("Trusts the library's own preprocessed text as 'the entire "
              "text' and the harness' loose-strip for fallback comparison.")
TECHNIQUE = ("boundary oracle over three request channels + fallback "
             "construction, with hooks on layout hand-down and chunk "
             "hand-off counting")
