"""C15 -- results depend only on text and settings, not on what ran before."""

import copy
import json
import os
import subprocess
import sys

from ..common import short, cpu_timebox, CaseTimeout

PROP = 'C15'
RULE = (
    "A battery of ~70 probe calls (PLSSDesc on texts with and without "
    "directions / sections / colons under several configs, Tract parses, "
    "TRS wrapping of valid / upper-case / near-miss / placeholder / empty "
    "strings, from_twprgesec, trs_to_dict, find_twprge, find_sec, creation-"
    "order sort) is evaluated after EVERY step of a random history and its "
    "canonical JSON outcome compared with the same battery run in a FRESH "
    "interpreter under the same MasterConfig (one baseline subprocess per "
    "N/S x E/W default). History steps: parse other descriptions (incl. the "
    "probe texts under other configs/defaults), change MasterConfig (and "
    "restore), TRS._clear_cache(), TRS._USE_CACHE off/on, pre-warm the cache "
    "with probe strings and their upper-case / near-miss variants, mutate "
    "every dict / list returned by trs_to_dict, to_dict, tracts_to_dict, "
    "tracts_to_list, group_by, list_trs, create-and-keep objects under other "
    "defaults, churn the Tract uid counter. Monitors: a shadow copy of every "
    "dict stored in the TRS cache (taken at first store, compared at "
    "quiescent points), identity checks that conversion results are fresh "
    "objects, and an audit of which pytrs module / class attributes each "
    "step touched. Non-trivial: every step (history prefix of length >= 1). "
    "Distinct by (shard, step index, operation)."
)
ASSUMPTIONS = [
    "Tract uid values themselves are not compared, only the order they "
    "induce.",
    "The baseline interpreter is started by the worker with the same "
    "sys.path and PYTHONHASHSEED.",
]
MIN_NONTRIVIAL = {'quick': 1000, 'thorough': 30000}
REQUIRED_MONITORS = ['battery', 'baseline', 'baseline:other-order', 'baseline:other-hashseed', 'shadow-cache:compare',
                     'shadow-cache:stored', 'fresh-object', 'state-audit',
                     'object-reuse', 'object-reuse:dry-run-between',
                     'object-reuse:plain-parse_tracts', 'deduce-restricted',
                     'trs-from-trs-object', 'builders-follow-master']
SHARD_TIMEOUT = {'quick': 600, 'thorough': 5400}

PROBE_PLSS = [
    ("T154-R97 Sec 14: NE/4, Sec 15: Lots 1 - 3", ""),
    ("NE/4 of Sec 1 - 3, T1S-R2E", "parse_qq"),
    ("T154N-R97 Sec 14 NE", "clean_qq,parse_qq,sec_colon_cautious"),
    ("foo", ""),
    ("Township 7, Range 9 East Sec 1: ALL", "s"),
    ("T154N-R97W Sec 100: NE/4", ""),
    ("T154N-R97W Sec 14: NE/4; W/2 of Sec 3, T155-R97", "segment,parse_qq"),
    ("Sec 5: Lots 1, 1, T7-R9", "parse_qq,e"),
    # probes whose outcome depends on a mode being OFF by default
    ("T1S4N-R97W Sec 14: NE/4", ""),               # OCR artefact, no ocr_scrub
    ("TIS4N-R97W Sec 14: NE/4", "ocr_scrub"),
    ("T154N-R97W Sec 14: NE", "parse_qq"),         # bare quarter, no clean_qq
    ("That part of the NE/4 of Sec 14 of T154N-R97W lying north", ""),
    ("That part of the NE/4 of Sec 14 of T154N-R97W lying north", "sec_within"),
    ("T154N-R97W Sec 14 NE/4, Sec 15: W/2", "sec_colon_required"),
    ("T154N-R97W Sec 14: N/2 of Lot 1", "parse_qq"),
    ("T154N-R97W Sec 14: N/2 of Lot 1", "parse_qq,suppress_lot_divs"),
    # several Twp/Rge's lacking directions (one warning names them all)
    ("T154-R97 Sec 14: NE/4\nT155-R98 Sec 1: ALL\nT7N-R9 Sec 3: W/2\n"
     "Township 12, Range 13 West Sec 5: Lot 1", ""),
]
PROBE_TRACT = [
    ("Lots 1 - 3, N/2NE/4", ""), ("NE of Lot 2, NE", "clean_qq"),
    ("S/2N/2NE/4", "qq_depth.3"), ("Lots 3 - 1 (40.0), ALL", ""),
]
PROBE_TRS = ['154n97w14', '154N97W14', '1154n97w14', 'XXXz97w01',
             '___z___z__', '', '154n97w', '7s9e01', '154n97w100', '154nXXXz14']
OTHER = ["T154N-R97W Sec 14: NE/4", "T154-R97 Sec 14: NE/4, Sec 15: Lots 1 - 3",
         "foo", "Sec 1: ALL of T7S-R9E", "T154N-R97 Sec 14 NE",
         "Township 7, Range 9 East Sec 1: ALL", "NE/4 of Sec 1 - 3, T1S-R2E",
         "T154N-R97W Sec 100: NE/4"]


# Objects that live as long as the process: the first Tract ever created and
# one Config object that every battery re-uses (a caller may legitimately
# share one Config among many descriptions).
_LONG_LIVED = {}
BATTERY_CPU_BOX_S = 30


def long_lived(pytrs):
    if not _LONG_LIVED:
        _LONG_LIVED['tract'] = pytrs.Tract('x')
        _LONG_LIVED['cfg'] = pytrs.Config('parse_qq')
        _LONG_LIVED['cfg_layout'] = pytrs.Config('copy_all')
        _LONG_LIVED['trs'] = pytrs.TRS('1n1w01')
        # descriptions whose config states the directions outright
        _LONG_LIVED['desc_nw'] = pytrs.PLSSDesc(
            'T154-R97 Sec 14: NE/4', config='n,w')
        _LONG_LIVED['desc_se'] = pytrs.PLSSDesc(
            'T154-R97 Sec 14: NE/4', config='s,e')
    return _LONG_LIVED


def probes(pytrs):
    """The battery as a list of independent thunks, in canonical order."""
    P, T = pytrs.PLSSDesc, pytrs.Tract
    ll = long_lived(pytrs)
    out = []
    add = out.append
    # An old object must follow the MasterConfig in force NOW.
    add(lambda: [ll['tract'].set_twprgesec(154, 97, 14),
                 T('y').set_twprgesec(7, 9, 1)])

    # Every builder reads the default directions in force NOW.
    add(lambda: [pytrs.TRS.from_twprgesec(154, 97, 14).trs,
                 pytrs.TRS.construct_trs(7, 9, 1),
                 pytrs.TRS().set_twprgesec('15', '9', 2),
                 T.from_twprgesec('x', 154, 97, 14).trs,
                 T.from_twprgesec('x', 154, 97, 14, config='clean_qq').trs,
                 pytrs.TRS.from_twprgesec('154n', 97, 14).trs])

    # A shared Config object configures every description the same way.
    def shared_cfg(txt):
        d = P(txt, config=ll['cfg'])
        return [[(t.trs, t.lots, t.qqs) for t in d.tracts],
                ll['cfg'].decompile_to_text()]
    for txt in ("T154N-R97W Sec 14: NE/4, NE", "T154N-R97W Sec 1: N/2NE/4NE/4"):
        add(lambda txt=txt: shared_cfg(txt))

    def shared_layout():
        d = P("T154N-R97W Sec 14: NE/4, Sec 15: W/2", config=ll['cfg_layout'])
        return [d.current_layout, [(t.trs, t.desc) for t in d.tracts],
                ll['cfg_layout'].decompile_to_text()]
    add(shared_layout)
    # Functions whose result may not depend on earlier calls with other
    # arguments (history step 'api-variants' makes those).
    add(lambda: pytrs.find_twprge("TlS4N-RIOOW Sec 14: NE/4", ocr_scrub=True))
    add(lambda: pytrs.find_twprge("T154-R97 Sec 1", preprocess=True,
                                  default_ns='s', default_ew='e'))
    add(lambda: pytrs.find_twprge("T154-R97 Sec 1"))
    add(lambda: pytrs.find_twprge("TlS4N-RIOOW Sec 14: NE/4"))

    def plss(txt, cfg):
        d = P(txt, config=cfg)
        return [d.pp_desc, d.current_layout,
                sorted(map(str, d.w_flags)), sorted(map(str, d.e_flags)),
                [(t.trs, t.desc, t.lots, t.qqs, t.twp, t.rge_num,
                  t.sec_num, t.orig_index) for t in d.tracts]]
    for txt, cfg in PROBE_PLSS:
        add(lambda txt=txt, cfg=cfg: plss(txt, cfg))

    def tract(desc, cfg):
        t = T(desc, trs='154n97w14', config=cfg, parse_qq=True)
        return [t.lots, t.qqs, t.pp_desc, t.trs, t.twp_num,
                sorted(t.w_flags), sorted(t.lot_acres.items())]
    for desc, cfg in PROBE_TRACT:
        add(lambda desc=desc, cfg=cfg: tract(desc, cfg))

    def trs(s):
        t = pytrs.TRS(s)
        return [[t.trs, t.twp, t.rge, t.sec, t.twp_num, t.rge_num,
                 t.sec_num, t.twp_undef, t.rge_undef, t.sec_undef,
                 bool(t.is_error()), bool(t.is_undef())],
                sorted(pytrs.trs_to_dict(s).items(), key=str),
                T('x', trs=s).trs]
    for s in PROBE_TRS:
        add(lambda s=s: trs(s))

    # Tracts of long-lived descriptions keep the directions their parent's
    # config states, whatever MasterConfig says by now.
    add(lambda: [ll['desc_nw'].tracts[0].set_twprgesec(154, 97, 14),
                 ll['desc_se'].tracts[0].set_twprgesec(154, 97, 14),
                 ll['desc_nw'].tracts[0].trs, ll['desc_se'].tracts[0].trs])
    # One long-lived TRS object, re-assigned again and again.
    def reassign(s):
        o = ll['trs']
        o.trs = s
        return [o.trs, o.twp, o.rge_num, o.sec, bool(o.is_error())]
    for s in PROBE_TRS + ['2s3e04']:
        add(lambda s=s: reassign(s))

    def setter():
        o = ll['trs']
        return [o.set_twprgesec(154, 97, 14), o.trs, o.twp_num,
                o.set_twprgesec('7s', '9e', None), o.trs, o.sec_undef]
    add(setter)
    add(lambda: [pytrs.TRS.from_twprgesec(154, 97, 14).trs,
                 pytrs.TRS.from_twprgesec('7', '9', 1).trs,
                 T.from_twprgesec('x', 5, 6, 7).trs,
                 pytrs.TRS.from_twprgesec('5s', 6, '07').trs])
    add(lambda: [pytrs.find_twprge("T154-R97 and 7N-9", preprocess=True),
                 pytrs.find_twprge("T154N-R97W, T7-R9E"),
                 pytrs.find_sec("Sec 3 - 1, 5")])

    def sorting():
        a = [T('a', trs='1n1w03'), T('b', trs='1n1w01'), T('c', trs='1n1w02')]
        tl = pytrs.TractList([a[2], a[0], a[1]])
        tl.custom_sort('i')
        first = [t.desc for t in tl]
        tl.custom_sort('s')
        return [first, [t.desc for t in tl]]
    add(sorting)
    return out


def battery(pytrs, order=None):
    """
    Outcome of every probe, listed in canonical order whatever the order of
    execution. `order`: None (canonical), 'reverse', an int (seed of a
    shuffle) or a random.Random that shuffles -- a probe's answer may not depend on which probes ran before
    it, inside one battery as little as across the history.
    """
    ps = probes(pytrs)
    idx = list(range(len(ps)))
    if order == 'reverse':
        idx.reverse()
    elif isinstance(order, int):
        import random
        random.Random(order).shuffle(idx)
    elif order is not None:
        order.shuffle(idx)
    out = [None] * len(ps)
    for i in idx:
        out[i] = ps[i]()
    return json.loads(json.dumps(out, default=str))


def baseline(ns, ew, order=None, hashseed=None):
    """Battery outcome in a fresh interpreter with MasterConfig = (ns, ew)
    (optionally under another string-hash seed than this worker's)."""
    code = (
        "import sys, json\n"
        "import pytrs\n"
        "from pv.props.c15 import battery\n"
        f"pytrs.MasterConfig.default_ns = {ns!r}\n"
        f"pytrs.MasterConfig.default_ew = {ew!r}\n"
        f"print(json.dumps(battery(pytrs, {order!r})))\n")
    env = dict(os.environ)
    if hashseed is not None:
        env['PYTHONHASHSEED'] = str(hashseed)
    cp = subprocess.run([sys.executable, '-c', code], capture_output=True,
                        text=True, timeout=120, env=env)
    if cp.returncode != 0:
        raise RuntimeError(f"baseline interpreter failed: {cp.stderr[-800:]}")
    return json.loads(cp.stdout)


def plan(tier, seed):
    if tier == 'quick':
        return [{'family': 'history', 'steps': 110, 'i': i} for i in range(12)]
    return [{'family': 'history', 'steps': 1000, 'i': i} for i in range(32)]


# -- monitors -----------------------------------------------------------------

class Shadow:
    """Deep copies of the dicts stored in the TRS cache, taken at store."""

    def __init__(self, ctx, pytrs):
        self.ctx = ctx
        self.TRS = pytrs.TRS
        self.copies = {}

    def install(self):
        from ..monitors import core
        TRS = self.TRS

        def after(tok, args, kwargs, result, exc):
            if exc is None and TRS._USE_CACHE:
                self.ctx.hit('shadow-cache:stored')
                key = args[0]
                try:
                    self.copies[key] = copy.deepcopy(result)
                except Exception:
                    pass
        core.wrap_method(TRS, '_cache_trs_to_dict', None, after)

    def compare(self, case):
        self.ctx.hit('shadow-cache:compare')
        cache = self.TRS._TRS__CACHE
        for k, v in list(cache.items()):
            if k in self.copies and v != self.copies[k]:
                self.ctx.violation(
                    'cached-trs-dict-changed', case,
                    f"the cached decomposition of {k!r} changed after it was "
                    f"stored: {short(repr(self.copies[k]), 150)} -> "
                    f"{short(repr(v), 150)}", dedup='cache')
                self.copies[k] = copy.deepcopy(v)
        # entries dropped by _clear_cache are forgotten
        for k in list(self.copies):
            if k not in cache:
                del self.copies[k]


def audit_state(pytrs):
    """{name: repr-hash} of plain-data module globals / class attributes."""
    import types
    out = {}
    from ..monitors.core import pytrs_modules
    plain = (int, float, bool, str, tuple, list, dict, set, frozenset,
             type(None))
    for m in pytrs_modules():
        for k, v in list(vars(m).items()):
            if k.startswith('__'):
                continue
            if isinstance(v, (list, dict, set)):
                out[f"{m.__name__}.{k}"] = hash(repr(v)) if len(repr(v)) < 20000 \
                    else len(v)
            elif isinstance(v, type) and v.__module__.startswith('pytrs'):
                for a, x in list(vars(v).items()):
                    if a.startswith('__') and a.endswith('__'):
                        continue
                    if isinstance(x, plain):
                        r = repr(x)
                        out[f"{v.__module__}.{v.__name__}.{a}"] = \
                            hash(r) if len(r) < 20000 else len(x)
    return out


# -- history steps ---------------------------------------------------------------

OPS = ['parse', 'parse-probe-other-cfg', 'master', 'master-toggle-restore',
       'clear', 'usecache', 'warm', 'mutate', 'keep', 'churn', 'mutate-trs',
       'shared-config-with-keywords', 'api-variants',
       'clear-then-warm-variants', 'object-reuse', 'trs-from-trs-object',
       'deduce-restricted']


def check_builders(pytrs, ctx, case, when):
    """Absolute, not differential: whatever MasterConfig says now is what
    every builder fills in (a default frozen at import time would agree with
    a fresh interpreter and still be wrong)."""
    T, TRS, MC = pytrs.Tract, pytrs.TRS, pytrs.MasterConfig
    ns, ew = MC.default_ns.lower(), MC.default_ew.lower()
    want = f"154{ns}97{ew}14"
    ctx.hit('builders-follow-master')
    got = {
        'TRS.from_twprgesec': TRS.from_twprgesec(154, 97, 14).trs,
        'TRS.construct_trs': TRS.construct_trs(154, 97, 14),
        'TRS().set_twprgesec': TRS().set_twprgesec(154, 97, 14),
        'Tract.from_twprgesec': T.from_twprgesec('x', 154, 97, 14).trs,
        'Tract().set_twprgesec': T('x').set_twprgesec(154, 97, 14),
        'PLSSDesc': pytrs.PLSSDesc('T154-R97 Sec 14: NE/4').tracts[0].trs,
        'find_twprge': pytrs.find_twprge('T154-R97 Sec 14', preprocess=True)[0]
        .lower().replace('t', '').replace('-r', '') + '14',
    }
    for name, val in got.items():
        if val != want:
            ctx.violation(
                'result-depends-on-history', case,
                f"{when}: MasterConfig says {ns}/{ew} but {name}(154, 97, 14) "
                f"gives {val!r}, expected {want!r}", dedup=f"builder|{name}")


def do_step(op, rng, pytrs, kept, ctx, case):
    P, T, TRS, MC = pytrs.PLSSDesc, pytrs.Tract, pytrs.TRS, pytrs.MasterConfig
    if op == 'parse':
        kept.append(P(rng.choice(OTHER),
                      config=rng.choice(['', 's,e', 'clean_qq,parse_qq',
                                         'segment', 'n,e,parse_qq',
                                         'ocr_scrub', 'sec_within',
                                         'sec_colon_required',
                                         'suppress_lot_divs,parse_qq',
                                         'copy_all', 'qq_depth.1,parse_qq',
                                         'ocr_scrub,segment,sec_within'])))
    elif op == 'parse-probe-other-cfg':
        txt, cfg = rng.choice(PROBE_PLSS)
        P(txt, config=rng.choice(['s,e', 'n,e', 's,w,parse_qq', 'copy_all',
                                  'ocr_scrub', 'clean_qq,parse_qq',
                                  'sec_within,segment']))
        desc, _ = rng.choice(PROBE_TRACT)
        T(desc, trs='154n97w14', config=rng.choice(['qq_depth.1', 'clean_qq',
                                                    'suppress_lot_divs']),
          parse_qq=True)
    elif op == 'master':
        MC.default_ns = rng.choice('ns')
        MC.default_ew = rng.choice('ew')
        check_builders(pytrs, ctx, case, 'after MasterConfig was changed')
    elif op == 'master-toggle-restore':
        saved = (MC.default_ns, MC.default_ew)
        MC.default_ns = 's' if saved[0] == 'n' else 'n'
        MC.default_ew = 'e' if saved[1] == 'w' else 'w'
        for txt, cfg in PROBE_PLSS[:3]:
            kept.append(P(txt, config=cfg))
        TRS.from_twprgesec(1, 2, 3)
        check_builders(pytrs, ctx, case, 'while MasterConfig is toggled')
        MC.default_ns, MC.default_ew = saved
        check_builders(pytrs, ctx, case, 'after MasterConfig was restored')
    elif op == 'deduce-restricted':
        # the layout question asked with a restricted list of candidates
        # (often excluding the true one) about texts that are parsed later
        from pytrs.parser.plssdesc import plss_parse as PP
        for txt, cfg in PROBE_PLSS:
            cands = rng.sample(['TRS_desc', 'desc_STR', 'S_desc_TR',
                                'TR_desc_S'], 2)
            d = P(txt, config=cfg, wait_to_parse=True)
            answers = [(cands, d.deduce_layout(candidates=cands)),
                       (cands[:1], PP.deduce_layout(d.pp_desc,
                                                    candidates=cands[:1])),
                       (cands, PP.deduce_layout(txt, candidates=cands))]
            ctx.hit('deduce-restricted')
            # Absolute: only the layouts asked about (or copy_all) can be
            # the answer -- whatever was asked about this text before.
            for asked, got in answers:
                if got not in asked + ['copy_all']:
                    ctx.violation(
                        'deduce_layout-answers-another-question', case,
                        f"deduce_layout of {txt!r} with candidates {asked} "
                        f"returned {got!r}", dedup='deduce-restricted')
                    break
    elif op == 'clear':
        TRS._clear_cache()
    elif op == 'usecache':
        TRS._USE_CACHE = rng.random() < 0.5
    elif op == 'warm':
        for s in PROBE_TRS + [x.upper() for x in PROBE_TRS] + \
                ['154n97w15', '154n97w1', '54n97w14', None, ' 154n97w14']:
            TRS(s)
    elif op == 'mutate':
        for s in rng.sample(PROBE_TRS, 3):
            dct = pytrs.trs_to_dict(s)
            ctx.hit('fresh-object')
            if dct is TRS._TRS__CACHE.get(s) or \
                    dct is TRS._TRS__CACHE.get(dct.get('trs')):
                ctx.violation('conversion-returns-cached-object', case,
                              f"trs_to_dict({s!r}) returned the dict held in "
                              f"the TRS cache", dedup='identity')
            for k in list(dct):
                dct[k] = 'JUNK'
            dct['extra'] = 1
        txt = ("T154-R97 Sec 14: Lots 1 - 3, Lot 2(40.1), NE/4, NE/4, less "
               "and except the well, Sec 15: W/2")
        d = P(txt, parse_qq=True)
        names = ('lots', 'qqs', 'lots_qqs', 'w_flags', 'w_flag_lines',
                 'e_flags', 'e_flag_lines', 'lot_acres', 'ilots')

        def junk(cell):
            if isinstance(cell, list):
                cell.append('JUNK')
            elif isinstance(cell, dict):
                cell['JUNK'] = 1
        for row in d.tracts_to_list(*names):
            for cell in row:
                junk(cell)
        for row in d.iter_to_list(*names):
            for cell in row:
                junk(cell)
        for rec in list(d.tracts_to_dict(*names)) + list(d.iter_to_dict(*names)):
            for cell in rec.values():
                junk(cell)
            rec['trs'] = 'JUNK'
        for t in d.tracts:
            for cell in t.to_dict(*names).values():
                junk(cell)
            for cell in t.to_list(*names):
                junk(cell)
        td = d.tracts[0].to_dict('trs', 'qqs', 'lot_acres')
        td.clear()
        # The description whose conversion results were modified is still
        # the description a fresh parse gives -- now, and after a re-parse.
        ctx.hit('fresh-object')

        def state(x):
            return json.loads(json.dumps(
                [[t.trs, t.desc, t.lots, t.qqs, t.lots_qqs, sorted(t.w_flags),
                  sorted(map(str, t.w_flag_lines)), sorted(t.e_flags),
                  sorted(t.lot_acres.items())] for t in x.tracts]
                + [sorted(x.w_flags), sorted(x.e_flags)], default=str))
        ref = P(txt, parse_qq=True)
        for label in ('after modifying returned lists/dicts',
                      'and after parse_tracts()'):
            a, b = state(d), state(ref)
            if a != b:
                i, x, y = first_diff(a, b)
                ctx.violation(
                    'result-depends-on-modified-return-value', case,
                    f"{label}: tract #{i} of the description is "
                    f"{short(repr(x), 200)}, a fresh description gives "
                    f"{short(repr(y), 200)}", dedup=label)
                break
            d.parse_tracts()
            ref.parse_tracts()
        g = d.group_by('twprge')
        for v in g.values():
            while len(v):
                v.pop()
        g.clear()
        lt = d.list_trs()
        lt.append('JUNK')
        t = TRS('7s9e01')
        x = pytrs.TRS.trs_to_dict(t)
        x['twp'] = 'JUNK'
    elif op == 'mutate-trs':
        # The dict a TRS object hands out through public conversions.
        for s in rng.sample(PROBE_TRS, 2):
            a, b = pytrs.trs_to_dict(s), pytrs.trs_to_dict(s)
            ctx.hit('fresh-object')
            if a is b:
                ctx.violation('conversion-returns-shared-object', case,
                              f"two calls of trs_to_dict({s!r}) returned the "
                              f"same object", dedup='identity2')
            a['sec_num'] = -1
    elif op == 'shared-config-with-keywords':
        # Per-parse keywords on descriptions that share the long-lived
        # Config objects must not write through into those objects.
        ll = long_lived(pytrs)
        d = P(rng.choice(OTHER), config=ll['cfg'])
        d.parse(commit=rng.random() < 0.5, clean_qq=True,
                qq_depth=rng.choice([1, 3]), break_halves=True)
        d.parse_tracts(clean_qq=True, qq_depth_min=1)
        d2 = P(rng.choice(OTHER), config=ll['cfg_layout'])
        d2.parse(layout=rng.choice(['TRS_desc', 'desc_STR']), commit=False)
        d2.parse(commit=True)
        kept.append(d)
    elif op == 'object-reuse':
        # One Tract / one PLSSDesc parsed several times with changing
        # keywords: each committed parse gives what a fresh object gives
        # for the same text, config and keywords.
        desc = rng.choice(['NE, Lots 1, 1, N/2 of Lot 2',
                           'Lots 3 - 1, NE/4, NE/4, SW',
                           'S/2N/2NE/4, NW, Lot 1(40.0), Lot 1(39.0)'])
        c0 = rng.choice([None, 'clean_qq', 'suppress_lot_divs', 'qq_depth.1',
                         'break_halves,qq_depth_min.3'])
        plss = rng.random() < 0.4
        text = f"T154N-R97W Sec 14: {desc}, less and except the well" \
            if plss else desc

        def make():
            return (P(text, config=c0) if plss
                    else T(text, trs='154n97w14', config=c0))

        def snap(o):
            ts = o.tracts if plss else [o]
            return json.loads(json.dumps(
                [[t.lots, t.qqs, t.pp_desc, sorted(t.w_flags),
                  sorted(t.e_flags), sorted(t.lot_acres.items())]
                 for t in ts], default=str))
        obj = make()
        for k in range(rng.randint(2, 5)):
            kw = {}
            for name, vals in (('clean_qq', [True, False]),
                               ('suppress_lot_divs', [True, False]),
                               ('qq_depth', [1, 3]), ('break_halves', [True])):
                if rng.random() < 0.4 and not (plss and name == 'suppress_lot_divs'):
                    kw[name] = rng.choice(vals)
            if plss:
                kw['parse_qq'] = True
                for name, vals in (('layout', ['copy_all', 'TRS_desc']),
                                   ('segment', [True]),
                                   ('sec_colon_required', [True]),
                                   ('default_ns', ['s'])):
                    if rng.random() < 0.25:
                        kw[name] = rng.choice(vals)
            if rng.random() < 0.5:
                # a what-if run with other settings in between: it is not
                # committed and leaves no trace in what follows
                ctx.hit('object-reuse:dry-run-between')
                dry = rng.choice([{'qq_depth': 1}, {'qq_depth_min': 3},
                                  {'suppress_lot_divs': True},
                                  {'clean_qq': True}, {'break_halves': True}])
                for t in (obj.tracts if plss else [obj]):
                    t.parse(commit=False, **dry)
            obj.parse(**kw)
            fresh = make()
            fresh.parse(**kw)
            if plss and rng.random() < 0.5:
                held = snap(obj)
                for t in obj.tracts:
                    t.parse(commit=False, qq_depth=rng.choice([1, 3]))
                obj.parse_tracts()
                fresh.parse_tracts()
                # Absolute, not differential (the fresh object goes through
                # the same two steps): a plain parse_tracts() re-parses under
                # the settings the tracts were given, so lots, aliquots and
                # flags -- the description's own among them -- are as before.
                ctx.hit('object-reuse:plain-parse_tracts')
                if snap(obj) != held:
                    i, x, y = first_diff(snap(obj), held)
                    ctx.violation(
                        'plain-parse_tracts-changes-results', case,
                        f"{text!r} (config {c0!r}) parsed with {kw}, then "
                        f"parse_tracts() without arguments: tract now "
                        f"{short(repr(x), 200)}, before "
                        f"{short(repr(y), 200)}", dedup='plain-parse_tracts')
                    break
            ctx.hit('object-reuse')
            a, b = snap(obj), snap(fresh)
            if a != b:
                i, x, y = first_diff(a, b)
                ctx.violation(
                    'result-depends-on-object-history', case,
                    f"parse #{k + 1} ({kw}) of a re-used "
                    f"{'PLSSDesc' if plss else 'Tract'} ({text!r}, config "
                    f"{c0!r}) gives {short(repr(x), 200)}, a fresh object "
                    f"gives {short(repr(y), 200)}",
                    dedup=f"reuse|{plss}")
                break
    elif op == 'trs-from-trs-object':
        # A TRS built from another TRS object takes that object's current
        # Twp/Rge/Sec -- whatever the object held (and was looked up under)
        # before.
        for i in range(120):
            a = TRS(f"{i + 1}n{i + 2}w{i % 36 + 1:02d}")
            TRS(a)
            new = f"{i + 3}s{i + 1}e{i % 30 + 1:02d}"
            a.trs = new
            ctx.hit('trs-from-trs-object')
            got = TRS(a).trs
            if got != new:
                ctx.violation(
                    'result-depends-on-history', case,
                    f"a = TRS({f'{i + 1}n{i + 2}w{i % 36 + 1:02d}'!r}); "
                    f"TRS(a); a.trs = {new!r}; TRS(a).trs == {got!r}",
                    dedup='trs-from-trs-object')
                break
    elif op == 'api-variants':
        for txt in ("TlS4N-RIOOW Sec 14: NE/4", "T154-R97 Sec 1"):
            pytrs.find_twprge(txt)
            pytrs.find_twprge(txt, preprocess=True)
            pytrs.find_twprge(txt, preprocess=True, default_ns='n',
                              default_ew='w')
            pytrs.find_twprge(txt, default_ns='s', default_ew='e')
        pytrs.find_sec("Sec 3 - 1, 5")
        TRS.from_twprgesec('15s', '9e', 1, ocr_scrub=True)
    elif op == 'clear-then-warm-variants':
        # One atomic step: the cache is emptied and the look-alike strings
        # get there BEFORE the probe strings do.
        TRS._clear_cache()
        for s in PROBE_TRS:
            for v in (s.upper(), s.lower(), s.swapcase(), ' ' + s, s + ' '):
                if v != s:
                    TRS(v)
    elif op == 'keep':
        saved = MC.default_ns
        MC.default_ns = 's'
        kept.append(T.from_twprgesec('x', 5, 6, 7))
        kept.append(P("T154-R97 Sec 14: NE/4"))
        MC.default_ns = saved
    elif op == 'churn':
        for _ in range(rng.randint(50, 400)):
            T('x')
    if len(kept) > 200:
        del kept[:100]


def first_diff(got, base):
    for i, (x, y) in enumerate(zip(got, base)):
        if x != y:
            return i, x, y
    return None, len(got), len(base)


def run_shard(shard, ctx):
    import pytrs
    import warnings
    warnings.simplefilter('ignore')
    shadow = Shadow(ctx, pytrs)
    shadow.install()
    rng = ctx.rng('history', shard['i'])
    base = {}
    for ns in 'ns':
        for ew in 'ew':
            base[(ns, ew)] = baseline(ns, ew)
            ctx.hit('baseline')
    # Two fresh interpreters that run the probes in opposite orders must
    # agree probe by probe (otherwise a probe's answer depends on which
    # probes ran before it -- the baseline itself would hide that).
    # ... and an interpreter started with another string-hash seed agrees
    # too (the outcome is a function of text, config and MasterConfig).
    seeded = baseline('n', 'w', None, hashseed=4242 + shard['i'])
    ctx.hit('baseline:other-hashseed')
    if seeded != base[('n', 'w')]:
        i, x, y = first_diff(seeded, base[('n', 'w')])
        ctx.violation(
            'result-depends-on-history',
            {'shard': shard, 'history': ['<fresh interpreter, PYTHONHASHSEED='
                                         f"{4242 + shard['i']}>"]},
            f"probe #{i} gives {short(repr(x), 220)} in a fresh interpreter "
            f"started with another hash seed but {short(repr(y), 220)} here",
            dedup=f"hashseed|{i}")
        return
    for order in ['reverse'] + [1000 * shard['i'] + k for k in range(4)]:
        other = baseline('n', 'w', order)
        ctx.hit('baseline:other-order')
        if other != base[('n', 'w')]:
            i, x, y = first_diff(other, base[('n', 'w')])
            ctx.violation(
                'result-depends-on-history',
                {'shard': shard, 'history': [f'<battery in order {order!r} '
                                             f'in a fresh interpreter>']},
                f"probe #{i} gives {short(repr(x), 220)} when the battery "
                f"runs in order {order!r} in a fresh interpreter but "
                f"{short(repr(y), 220)} in canonical order",
                dedup=f"order|{i}")
            return
    # A cold battery in this process must already equal the baseline.
    MC = pytrs.MasterConfig
    kept, history = [], []
    touched = ctx.extra.setdefault('globals_touched_by_op', {})
    got = battery(pytrs)
    if got != base[(MC.default_ns, MC.default_ew)]:
        i, x, y = first_diff(got, base[(MC.default_ns, MC.default_ew)])
        ctx.violation('cold-battery-differs-from-baseline',
                      {'shard': shard, 'history': []},
                      f"probe #{i}: {short(repr(x), 200)} vs fresh interpreter "
                      f"{short(repr(y), 200)}")
        return
    for step in range(shard['steps']):
        op = rng.choice(OPS)
        history.append(op)
        case = {'shard': shard, 'step': step, 'op': op,
                'history_tail': history[-12:]}
        before = audit_state(pytrs)
        with ctx.guard(case):
            do_step(op, rng, pytrs, kept, ctx, case)
        after = audit_state(pytrs)
        ctx.hit('state-audit')
        changed = sorted(k for k in after if before.get(k) != after[k])
        for k in changed:
            touched.setdefault(op, {})
            touched[op][k] = touched[op].get(k, 0) + 1
        ctx.case([shard['i'], step, op], True, shape=op,
                 sample={'step': step, 'op': op,
                         'master': [MC.default_ns, MC.default_ew],
                         'globals_touched': changed[:6]})
        try:
            with cpu_timebox(BATTERY_CPU_BOX_S):
                with ctx.guard(case):
                    got = battery(pytrs, rng if step % 2 else None)
        except CaseTimeout:
            # A battery normally takes well under a second. One that needs
            # minutes means the history made the library slow (C16's
            # subject, not C15's): stop here. With violations already seen
            # the verdict stands; without any the shard must not count as
            # 'held', so the worker fails and the run is INCONCLUSIVE.
            ctx.hist['stopped-battery-too-slow'] += 1
            if ctx.n_violations:
                break
            ctx.checkpoint()
            raise RuntimeError(
                f"battery after step {step} ({op}) exceeded "
                f"{BATTERY_CPU_BOX_S} s of CPU time; no verdict")
        with ctx.guard(case):
            ctx.hit('battery')
            want = base[(MC.default_ns, MC.default_ew)]
            if got != want:
                i, x, y = first_diff(got, want)
                ctx.violation(
                    'result-depends-on-history', case,
                    f"after step {step} ({op}; MasterConfig "
                    f"{MC.default_ns}{MC.default_ew}; cache "
                    f"{'on' if pytrs.TRS._USE_CACHE else 'off'}) probe #{i} "
                    f"gives {short(repr(x), 220)} but a fresh interpreter "
                    f"gives {short(repr(y), 220)}", dedup=f"{op}|{i}")
        if step % 25 == 24:
            shadow.compare(case)
        if ctx.n_violations >= 3:
            # The verdict is decided; a history that keeps diverging (or
            # keeps getting slower) need not be walked to its end.
            ctx.hist['stopped-after-enough-violations'] += 1
            break
    shadow.compare({'shard': shard, 'step': 'end'})


def summarise_extra(extras):
    merged = {}
    for e in extras:
        for op, d in e.get('globals_touched_by_op', {}).items():
            m = merged.setdefault(op, {})
            for k, n in d.items():
                m[k] = m.get(k, 0) + n
    return {'globals_touched_by_op': {
        op: dict(sorted(d.items(), key=lambda kv: -kv[1])[:8])
        for op, d in merged.items()}}


def replay(case, ctx):
    # A history is replayed from its shard seed up to the failing step.
    shard = dict(case['shard'])
    if isinstance(case.get('step'), int):
        shard['steps'] = case['step'] + 1
    run_shard(shard, ctx)


MANIFEST_TEXT = (
    "Held on every step observed: after each of 1.3k (quick) / 32k "
    "(thorough) history steps (other parses, MasterConfig changes, cache "
    "cleared / disabled / pre-warmed, returned dicts and lists mutated, "
    "objects kept under other defaults, uid churn) a ~70-call probe battery "
    "equals the same battery run in a fresh interpreter under the same "
    "MasterConfig; a shadow copy of the TRS cache and identity checks watch "
    "for aliasing. Exploration over interleavings.")
LEVEL_NOTE = ("Trusts the probe battery to be sensitive to the hidden state "
              "in question and the baseline subprocess to be a clean "
              "interpreter.")
TECHNIQUE = ("history + executable model: probe battery after every step vs "
             "fresh-interpreter baseline; shadow-state monitor on the TRS "
             "cache; global-state audit")
