"""C04 -- no description text is silently dropped."""

import re

from ..common import CaseTimeout, cpu_timebox, short
from ..gen import plss as G
from ..gen import soup

PROP = 'C04'
RULE = (
    "(i) marker test: a foreign word (ZQXJV, KWYBG, ... and, hostile, NQZXV / "
    "SQZXV / EQZXV / WQZXV) inserted at a word boundary of a well-formed C01 "
    "description or a damaged one (deleted / duplicated / transposed tokens, "
    "stripped colons, shuffled lines, dropped direction letters, text before "
    "the first / after the last Twp/Rge), under modes {default, segment, "
    "sec_within, segment+sec_within, sec_colon_required, sec_colon_cautious, "
    "each forced layout}; the marker must be found whole in a tract "
    "description or in an unused_desc error flag / its context. Insertion "
    "points inside a Twp/Rge...P.M. span are excluded. (ii) conservation "
    "over the recorded marker walk of every ChunkParser: each inter-marker "
    "block (after TEXT_START / TWPRGE_END / SEC_END) is either staged as a "
    "tract description (modulo leading/trailing separators and connective "
    "words) or kept in unused_components, exactly once; every unused block "
    "of >= 4 characters ends in an unused_desc flag or (sec_within) in a "
    "tract description; the chunker's blocks + unused_blocks reassemble its "
    "text. (iii) every preprocessing substitution pass keeps, whole and in "
    "order, every token of its input that does not overlap a span its own "
    "regex matched. Non-trivial: the marker lands in a description with >= 2 "
    "blocks. Distinct by (text, mode)."
)
ASSUMPTIONS = [
    "Connective words (the, all, of, in, and) and separator characters at "
    "the edge of a block may be stripped (cleanup_desc); unused blocks "
    "shorter than 4 characters may vanish (documented threshold).",
    "Words inside a Twp/Rge ... P.M. span are the meridian designation and "
    "may be removed.",
]
MIN_NONTRIVIAL = {'quick': 9000, 'thorough': 200000}
REQUIRED_MONITORS = ['marker', 'walk-conservation', 'scrub-conservation',
                     'repeat-parse',
                     'unused-accounting', 'hook:populate_markers',
                     'hook:sub_scrubber', 'hook:segment',
                     'hook:rebuild_sec_within']

MARKERS = ['ZQXJV', 'KWYBG', 'QJZKX', 'VXQZJ', 'NQZXV', 'SQZXV', 'EQZXV',
           'WQZXV',
           # foreign tokens without a single letter
           '#4471', '(160.00)', '{77349}']
MODES = ['', '', 'segment', 'sec_within', 'segment,sec_within',
         'sec_colon_required', 'sec_colon_cautious', 'TRS_desc', 'desc_STR',
         'S_desc_TR', 'TR_desc_S', 'copy_all',
         # segmenting with a dictated layout (each chunk must fit it -- or
         # end up flagged)
         'segment,TRS_desc', 'segment,desc_STR', 'segment,S_desc_TR',
         'segment,TR_desc_S,sec_within']

# The harness' own idea of a principal-meridian designation: a Twp/Rge,
# separators (line breaks included), an optional 'of the', the NAME of the
# meridian -- at most four words on one line, each an ordinal ('5th') or
# letters ('Fifth', 'Montana', 'New Mexico') -- separators, 'P.M.' /
# 'Principal Meridian'. A marker made of letters is not inserted inside such
# a span (it would read as part of the name, which the library drops by
# design); everything else must survive: non-word markers anywhere, and any
# marker in text that merely stands between a Twp/Rge and a later 'P.M.'.
_PM_SPAN = re.compile(
    r"(\d\s*[NSns][a-z]{0,5}[\s.,\-–—;|_~]*(R[a-z]{0,6})?[\s.,\-–—]*\d{1,3}"
    r"[\s.,\-–—]*([EWew][a-z]{0,3})?)[\s:,;.\-–—]*(of)?\s*(the)?\s*"
    r"((\d{1,2}(st|nd|rd|th)|[A-Za-z.]+)[ \t]*){0,4}[\s:,;.\-–—]*"
    r"(P\.?\s*M\.?|Meridian)", re.I)
_SEPCH = ',;:-–—\t\n .'
_CULL = {'the', 'all', 'of', 'in', 'and'}


def plan(tier, seed):
    if tier == 'quick':
        return [{'family': 'marker', 'n': 1200, 'i': i} for i in range(10)]
    return [{'family': 'marker', 'n': 12000, 'i': i} for i in range(24)]


_TWPRGE_ISH = re.compile(
    r"\d\s*[NSns][a-z]{0,5}[\s.,\-–—;|_~]*(R[a-z]{0,6})?[\s.,\-–—]*\d{1,3}"
    r"[\s.,\-–—]*([EWew][a-z]{0,3})?", re.I)
_PM_TOKEN = re.compile(
    r"(?<![a-z])(P\.?\s{0,10}M\.?|P+r+i*n*c*i*p*a*l*\s{0,10}M+e*r*i*d*i*a*n*)"
    r"(?![a-z])", re.I)


def one_line_pm_window(before, marker):
    """True iff, in the text `before` a substitution pass, the marker stands
    between a Twp/Rge and the next 'P.M.' token and that stretch -- leading
    and trailing separators and line breaks aside -- is a single line of at
    most 40 characters (the library's window: 'of the' + 25 characters)."""
    for pm in _PM_TOKEN.finditer(before):
        for tr in _TWPRGE_ISH.finditer(before, 0, pm.start()):
            between = before[tr.end():pm.start()]
            if marker not in between:
                continue
            inner = between.strip(' \t\n:,;.-–—')
            if '\n' not in inner and len(inner) <= 40:
                return True
    return False


def insertion_points(text, marker=''):
    pts = [0, len(text)] + [m.start() for m in re.finditer(r'\s+', text)]
    if not marker.isalpha():
        return pts
    blocked = [(m.start(), m.end()) for m in _PM_SPAN.finditer(text)]
    return [p for p in pts if not any(a <= p <= b for a, b in blocked)]


# -- (iii) preprocessing conservation ----------------------------------------

def scrub_problem(rgxlib, ev):
    rgx = getattr(rgxlib, ev['rgx'], None)
    if rgx is None:
        return None
    before, after = ev['before'], ev['after']
    spans = [(m.start(), m.end()) for m in rgx.finditer(before)]
    toks = [(m.start(), m.end(), m.group()) for m in re.finditer(r'\S+', before)]
    keep = [t for a, b, t in toks
            if not any(a < e and s < b for s, e in spans)]
    pos = 0
    for t in keep:
        i = after.find(t, pos)
        if i < 0:
            return (f"pass {ev['rgx']}: token {t!r} (outside every span the "
                    f"pattern matched) is missing / out of order in the "
                    f"output {short(after, 100)!r} of "
                    f"{short(before, 100)!r}")
        pos = i + len(t)
    return None


# -- (ii) marker-walk conservation ------------------------------------------

def residue_ok(block, desc):
    i = block.find(desc)
    if i < 0:
        return False
    res = block[:i] + ' ' + block[i + len(desc):]
    if not all(w in _CULL for w in re.findall(r'\w+', res.lower())):
        return False
    # ... and, apart from those words, only separator characters.
    return not re.sub(r'\w+', '', res).strip(_SEPCH)


def walk_problem(rec):
    """Check every chunk's marker walk recorded in ``rec``."""
    marks = {e['chunk']: e for e in rec.of('markers')}
    for ex in rec.of('meaningful_exit'):
        cid = ex['chunk']
        mk = marks.get(cid)
        if mk is None:
            continue
        txt = mk['text']
        pos = [p for p, _ in mk['markers']]
        kind = dict(mk['markers'])
        blocks = [txt[a:b] for a, b in zip(pos, pos[1:])
                  if kind[a] in ('TEXT_START', 'TWPRGE_END', 'SEC_END')]
        # Marker spans + blocks must tile the chunk text.
        covered = sum(b - a for a, b in zip(pos, pos[1:]))
        if pos and (pos[0] != 0 or pos[-1] != len(txt) or covered != len(txt)):
            return f"markers {mk['markers']} do not tile the chunk text"
        staged = [e['desc'] for e in rec.of('stage') if e['chunk'] == cid]
        unused = [u[1] for u in ex['unused']]
        for blk in blocks:
            if blk in unused:
                unused.remove(blk)
                continue
            cands = [k for k, d in enumerate(staged) if residue_ok(blk, d)]
            # The fullest matching description (an empty one matches any
            # block made of connective words only).
            k = max(cands, key=lambda k: len(staged[k])) if cands else None
            if k is None:
                if not re.search(r'\w', blk):
                    continue
                return (f"block {blk!r} of chunk {short(txt, 80)!r} was "
                        f"neither staged as a description nor kept as "
                        f"unused (staged {staged}, unused "
                        f"{[u[1] for u in ex['unused']]})")
            staged.pop(k)
        left = [u for u in unused if u.strip()]
        # A final SEC_END / TWPRGE_END that coincides with TEXT_END stages
        # (or keeps) an empty block of its own: nothing is lost by that.
        staged = [d for d in staged if d.strip()]
        if staged or left:
            return (f"chunk {short(txt, 80)!r}: staged {staged} / unused "
                    f"{left} correspond to no inter-marker block")
    return None


def chunker_problem(rec):
    for e in rec.of('segment'):
        words = re.findall(r'\w+', e['text'])
        pool = ' '.join([u[1] for u in e['unused_blocks'] if u[0] == 0]
                        + e['blocks']
                        + [u[1] for u in e['unused_blocks'] if u[0] != 0])
        pos = 0
        for w in words:
            core = w.strip(_SEPCH)
            if not core or core.lower() in _CULL:
                continue
            i = pool.find(core, pos)
            if i < 0:
                return (f"segment: word {core!r} of {short(e['text'], 80)!r}"
                        f" is in neither blocks {e['blocks']} nor "
                        f"unused_blocks {e['unused_blocks']}")
            pos = i
    return None


def unused_problem(rec, d):
    cons = rec.of('construct')
    if not cons:
        return None
    c = cons[-1]
    descs = [t.desc for t in d.tracts]
    flags = [f for f in d.e_flags if isinstance(f, str)]
    for _, blk in c['unused']:
        if len(blk) < 4 or not re.search(r'\w', blk):
            continue
        if f"unused_desc<{blk}>" in flags:
            continue
        core = blk.strip(_SEPCH)
        if any(core in ds for ds in descs):
            continue
        return (f"unused block {blk!r} (>= 4 characters) is in no "
                f"unused_desc flag ({flags}) and in no tract description")
    return None


# ---------------------------------------------------------------------------

def gen_case(rng):
    r = rng.random()
    base = G.gen_case(rng, max_groups=2, max_secs=3)
    text, fam = base['text'], 'wellformed'
    if r < 0.45:
        text, op = soup.damage(rng, text)
        fam = f"damaged:{op}"
    elif r < 0.55:
        # text before the first / after the last Twp/Rge
        extra = rng.choice(['Situated in Dunn County', 'containing 160 acres',
                            'subject to easements of record'])
        text = f"{extra}, {text}" if rng.random() < 0.5 else f"{text}, {extra}"
        fam = 'extra-text'
    elif r < 0.585:
        # no Twp/Rge at all / the section named before the Twp/Rge
        if rng.random() < 0.5:
            for a, b, k in sorted(base['spans'], reverse=True):
                if k == 'twprge':
                    text = text[:a] + text[b:]
            fam = 'no-twprge'
        else:
            text = f"Section {rng.randint(1, 36)}, {text}"
            fam = 'section-first'
    elif r < 0.62:
        j = rng.choice([', ', ' of the ', ', '])
        pm = rng.choice(['5th P.M.', 'Fifth Principal Meridian', '5 PM'])
        text = re.sub(r'(T\d+[NS]-R\d+[EW])', r'\1' + j + pm, text, count=1)
        if rng.random() < 0.5:
            # ... and named once more at the very end
            text += rng.choice([', 5th P.M.', '\n5th P.M.', ', P.M.'])
        fam = 'with-pm'
    elif r < 0.70:
        # A principal-meridian designation on a line of its own, AFTER a
        # line of description: the words of that line are not part of it.
        tw = G.render_twprge((rng.randint(1, 160), rng.choice('ns'),
                              rng.randint(3, 99), rng.choice('ew')),
                             rng.choice(['compact', 'words', 'abbr']))
        n = rng.randint(1, 36)
        blk = rng.choice(['NE/4', 'Lot 1', 'W/2', 'N/2NE/4', 'Lots 1, 2'])
        pm = rng.choice(['5th P.M.', 'Fifth Principal Meridian',
                         'of the 5th P.M.', 'P.M.'])
        if pm == 'P.M.':
            blk += ', 5th'      # separators alone would bridge the lines
        text = (f"{tw}\nSec {n}: {blk}\n{pm}" if rng.random() < 0.7 else
                f"{tw}\n{blk} of Sec {n}\n{pm}")
        fam = 'pm-on-later-line'
    elif r < 0.76:
        # The P.M. follows the section and its (short) description on the
        # same line: 'T154N-R97W Sec 14: NE/4, 5th P.M.'
        tw = G.render_twprge((rng.randint(1, 160), rng.choice('ns'),
                              rng.randint(3, 99), rng.choice('ew')),
                             rng.choice(['compact', 'words', 'abbr']))
        n = rng.randint(1, 36)
        blk = rng.choice(['NE/4', 'Lot 1', 'W/2', 'ALL'])
        text = (f"{tw}{rng.choice([' ', ', '])}{rng.choice(['Sec', 'Section'])}"
                f" {n}: {blk}, {rng.choice(['5th P.M.', 'P.M.'])}")
        fam = 'pm-after-section'
    marker = rng.choice(MARKERS)
    pts = insertion_points(text, marker)
    pos = rng.choice(pts)
    if pos == 0:
        out = marker + ' ' + text
    elif pos == len(text):
        out = text + ' ' + marker
    else:
        out = text[:pos] + ' ' + marker + text[pos:]
    return {'text': out, 'marker': marker, 'pos': pos, 'family': fam,
            'mode': rng.choice(MODES), 'nblocks': len(base['expected'])}


def check_case(case, ctx, rec, pytrs, rgxlib):
    text, marker, mode = case['text'], case['marker'], case['mode']
    ctx.case([text, mode], case['nblocks'] >= 2,
             shape=f"{case['family'].split(':')[0]}|{mode or 'default'}",
             sample={'text': short(text, 200), 'mode': mode})
    rec.reset()
    try:
        with cpu_timebox(20):
            with ctx.guard(case):
                d = pytrs.PLSSDesc(text, config=mode or None)
                ctx.hit('marker')
                found = any(marker in t.desc for t in d.tracts) or any(
                    marker in f or marker in c
                    for f, c in d.e_flag_lines
                    if isinstance(f, str) and f.startswith('unused_desc'))
                if not found:
                    m = re.search(r'\S*' + re.escape(marker[1:]) + r'\S*',
                                  d.pp_desc)
                    ctx.violation(
                        'marker-lost', case,
                        f"{marker} inserted in {short(text, 160)!r} (mode "
                        f"{mode!r}) is in no tract description "
                        f"{[short(t.desc, 40) for t in d.tracts]} and in no "
                        f"unused_desc flag {d.e_flags}; pp_desc "
                        f"{short(d.pp_desc, 120)!r}",
                        dedup=f"{mode}|{case['family']}",
                        pp_desc=d.pp_desc,
                        removed_by_pm_pass=any(
                            ev['rgx'] == 'pp_twprge_pm'
                            and marker in ev['before']
                            and marker not in ev['after']
                            and one_line_pm_window(ev['before'], marker)
                            for ev in rec.of('scrub')),
                        # both mechanisms in a row: a pass splits the
                        # marker's first letter off (D22), the P.M. pass
                        # then deletes the rest inside its window
                        initial_eaten_then_pm=(
                            marker[:1] in 'NSEW' and any(
                                marker in ev['before']
                                and marker not in ev['after']
                                and re.search(r'\d{1,3}' + marker[0]
                                              + r'[\s\-]+' + marker[1:],
                                              ev['after'])
                                for ev in rec.of('scrub'))
                            and any(
                                ev['rgx'] == 'pp_twprge_pm'
                                and marker[1:] in ev['before']
                                and marker[1:] not in ev['after']
                                and one_line_pm_window(ev['before'],
                                                       marker[1:])
                                for ev in rec.of('scrub'))),
                        in_pp_desc=marker in d.pp_desc,
                        remnant=m.group(0) if m else None)
                ctx.hit('scrub-conservation', len(rec.of('scrub')) or 1)
                for ev in rec.of('scrub'):
                    why = scrub_problem(rgxlib, ev)
                    if why:
                        ctx.violation('preprocess-drops-token', case, why,
                                      dedup=ev['rgx'])
                        break
                ctx.hit('walk-conservation')
                why = walk_problem(rec) or chunker_problem(rec)
                if why:
                    ctx.violation('walk-not-conserving', case, why,
                                  dedup=mode)
                ctx.hit('unused-accounting')
                why = unused_problem(rec, d)
                if why:
                    ctx.violation('unused-block-unreported', case, why,
                                  dedup=mode)
                # What a first parse reported, a later parse of the same
                # text (same object, and a second object) reports too.
                if ctx.evaluations % 3 == 0 or 'pm' in case['family']:
                    ctx.hit('repeat-parse')
                    first = (sorted(t.desc for t in d.tracts),
                             sorted(map(str, d.e_flags)))
                    d.parse()
                    d2 = pytrs.PLSSDesc(text, config=mode or None)
                    for label, obj in (('re-parse of the same object', d),
                                       ('second object, same text', d2)):
                        now = (sorted(t.desc for t in obj.tracts),
                               sorted(map(str, obj.e_flags)))
                        if now != first:
                            ctx.violation(
                                'later-parse-reports-less', case,
                                f"{label}: descriptions / error flags "
                                f"{short(repr(now), 300)} differ from the "
                                f"first parse {short(repr(first), 300)}",
                                dedup=label)
                            break
    except CaseTimeout:
        ctx.discard('slow')


def _setup(ctx):
    import pytrs
    import warnings
    from pytrs.parser import rgxlib
    from ..monitors import plss_hooks
    warnings.simplefilter('ignore')
    rec = plss_hooks.install(ctx, scrubbers=True)
    return pytrs, rec, rgxlib


def run_shard(shard, ctx):
    pytrs, rec, rgxlib = _setup(ctx)
    rng = ctx.rng(shard['family'], shard['i'])
    for _ in range(shard['n']):
        base = gen_case(rng)
        # The same damaged text with several insertion points / modes.
        check_case(base, ctx, rec, pytrs, rgxlib)


def replay(case, ctx):
    pytrs, rec, rgxlib = _setup(ctx)
    check_case(case, ctx, rec, pytrs, rgxlib)


def classify(v):
    """D22 as seen by C04: a marker starting with E/W (N/S) directly after a
    direction-less range (township) number loses its first letter to the
    Twp/Rge: the preprocessed text holds '<E|W> QZXV'."""
    if v['kind'] != 'marker-lost':
        return None
    if v.get('removed_by_pm_pass'):
        # The recorded substitution pass of `pp_twprge_pm` had the marker in
        # its input and not in its output, AND by the harness' own reading
        # the marker stood on the single line of <= 40 characters between a
        # Twp/Rge and 'P.M.': the arbitrary characters the pattern allows
        # there were deleted. (Text on a line of its own between the two is
        # not covered.)
        return 'text-between-twprge-and-PM-deleted'
    if v.get('initial_eaten_then_pm'):
        return ['directionless-number-eats-next-word-initial',
                'text-between-twprge-and-PM-deleted']
    case = v.get('case') or {}
    marker = case.get('marker', '')
    pp = v.get('pp_desc') or ''
    if marker[:1] in 'NSEW' and marker not in pp and \
            re.search(r'[TR]\d{1,3}' + marker[0] + r'[\s\-]+' + marker[1:], pp):
        return 'directionless-number-eats-next-word-initial'
    return None


MANIFEST_TEXT = (
    "Held (up to the two recorded findings) on every execution observed: "
    "marker words and tokens inserted at word boundaries of well-formed and "
    "damaged descriptions (P.M. designations included) under sixteen parse "
    "modes must reappear in a description "
    "or an unused_desc flag; in every parse the recorded marker walk, the "
    "chunker and every preprocessing substitution pass are checked for "
    "conservation (text in = text staged + text flagged). Exploration.")
LEVEL_NOTE = ("Trusts the hooks' view of internal state (markers, staged "
              "blocks, unused components) and the library's own regexes to "
              "recompute the spans a substitution pass matched.")
TECHNIQUE = ("conservation checker over recorded parser events (hooks on "
             "marker walk, chunker, sec_within, sub_scrubber) + marker-"
             "injection workload at the boundary")
