"""C16 -- parsing time stays bounded on inputs of ordinary size."""

import collections
import math
import re
import signal
import sys
import time

from ..common import CaseTimeout, cpu_timebox

PROP = 'C16'
SIZE_BOUND = 250          # "a few hundred characters" -- deciding sizes
BUDGET_S = 2.0            # "a couple of seconds" of CPU time
REPORT_SIZES = (400, 600)  # thorough, report-only
RULE = (
    "Pumping families prefix + unit^n + suffix for ~100 units (blanks, tabs, "
    "newlines, each punctuation mark, '. ', ', ', ' and ', ' & ', ' - ', "
    "' thru ', ' to ', 'of the ', aliquot/lot/section/Twp-Rge tokens, letters "
    "of township/principal/meridian, OCR look-alikes, symbols) x 13 prefixes "
    "x 8 suffixes, pumped to 250 characters (quick: size 250 for every "
    "triple and the 62/125 ladder for a rotating third; thorough: the whole "
    "ladder plus 400/600 report-only); structural repetition (k lines each "
    "repeating a Twp/Rge, k sections, k lots, k aliquots) and random PLSS "
    "token soup, all <= 250 characters. Each case = PLSSDesc(text, "
    "parse_qq=True) timed with process CPU time inside a CPU-time box; a case "
    "over the budget (2.0 s x machine factor) is re-run twice and the "
    "minimum decides. Non-trivial: the text contains a Twp/Rge, section, "
    "lot or aliquot token besides the pumped unit (i.e. any non-empty prefix "
    "or suffix) or is structural/soup. Distinct by text."
)
ASSUMPTIONS = [
    "Only sizes <= 250 characters decide; 400/600 are reported (growth "
    "exponents) but never judged.",
    "Budget = 2.0 s CPU x max(1, calibration loop time / reference): a slower "
    "or heavily shared machine widens the budget, never narrows it.",
]
MIN_NONTRIVIAL = {'quick': 5000, 'thorough': 30000}
REQUIRED_MONITORS = ['timer:PLSSDesc', 'timer:Tract', 'calibration', 'repeat',
                     'structural:mode']
SHARD_TIMEOUT = {'quick': 900, 'thorough': 5400}

UNITS = [
    ' ', '\t', '\n', '\r\n', '.', '. ', ', ', ',', ';', '; ', ':', ': ', '-',
    ' - ', '–', '—', ' and ', ' & ', '&', ' of ', ' the ', 'of the ', 'N',
    'NE', 'N2', 'N/2', 'NE/4 ', 'N½', 'NE¼', 'North ', 'T', 'R', '1', '12 ',
    'Sec ', 'Sec 1 ', 'Sec 1, ', 'Sec 1: ', 'Lot ', 'Lot 1, ', 'Lots 1-3, ',
    'L1 ', 'T1N-R1W ', 'T154N-R97W\n', 'T1N R1W, ', ' thru ', ' to ',
    'through ', '/', '(', ')', '(1.0) ', '[', ']', '½', '¼', 'o', 'f', 't',
    'h', 'e', 'P', 'M', 'P.M. ', 'Principal ', 'Meridian ', '°', "'", '"',
    'X', 'all ', 'ALL ', 'south', 'west ', 'e ', 'w ', 's ', 'n ',
    'Township ', 'Range ', 'Twp. ', 'Rge. ', '5th ', 'less ', 'except ',
    'in so far ', 'only ', '0', 'I', 'l', 'O', 'S', '|', '_', '~', '§', 's',
    'ee', 'ss', 'hh', 'ii', 'pp', 'ww', 'nn', 'oo', 'aa', 'Quarter ',
    'One ', 'Half ', '1/4 ', '1/2 ', ' 1', '. . ', ' ,', '- ', ' .',
    # mixed / exotic whitespace (runs that a per-character collapse misses)
    '\n ', ' \n', ' \t', '\t ', '\n\t', '\xa0', '\u2009', '\u3000', ' \xa0',
    '\r', '\x0b', '\x0c', '\n \n',
    # abbreviated conjunctions with a period, glued conjunctions
    ' thru. ', ' through. ', 'thru.', ' to. ', ' and. ', '&', ' &', ', and ',
    ' , ', ';;', '::', '.,', ',.', ' / ', '/ ',
    # digit groups (acreages, references)
    '123,', '1,', '12.', '123 ', '0.', '9',
    # wide ranges, chained or listed (each expands to hundreds of numbers)
    '1-999-', '1-999, ', '-999', ' 1 - 500,', '1 thru 900 and ',
    # connecting words without a trailing blank (between a section and a
    # Twp/Rge: 'Section 4, all in T154N-R97W')
    ' in', ' of', ' all of', ' in,',
]
PREFIXES = ['', 'T154N-R97W ', 'T154N-R97W Sec 14', 'T154N-R97W Sec 14: ',
            'T154N-R97W Sec 14: Lot 1', 'T154N-R97W Sec 14: N/2', 'Sec 14',
            'NE/4 of Sec 14', 'T154N-R97W Sec 14: NE/4 of the',
            'Township 154 North', 'T154N-R97',
            # a township written without N/S, a range without E/W
            'Township 154 ', 'T154 ', 'T154-R97 ', 'Sec 14: NE/4, Township 154',
            'Township 154 North, Range ',
            'T154N-R97W Sec 14: Lot 1 (', 'T154N-R97W Sec 14: Lot 1 [3',
            'T154N-R97W Sec 14: Lots ', 'T154N-R97W Sec 14: Lots 1 - 2',
            # the word 'Section' / 'Sec' with a leader behind it that leads
            # to no number ('... of the Section . . . . line')
            'T154N-R97W Sec 14: NE/4 north of the Section', 'T154N-R97W Sec']
SUFFIXES = ['', ' Sec 15: W/2', 'X', ' T154N-R97W', '1', ' P.M.', ' NE/4',
            '-A) NE/4', ' the T154N-R97W']
TRACT_PREFIXES = ['', 'NE/4', 'N/2 of', 'Lot 1', 'Lots 1 - 3,', 'N½NE¼', 'Lots ',
                  'Lots 1 - 2',
                  'Northeast Quarter', 'NE', 'ALL', 'Lot 1 (', 'Lot 1 [3']
TRACT_SUFFIXES = ['', 'x', ' NE/4', ' Lot 2', '1', ' of the SW/4', '-A)']
LADDER = (62, 125, 250)
WIDE_RANGE_UNITS = ('1-999-', '1-999, ', '-999', ' 1 - 500,', '1 thru 900 and ')
REPEAT_CONFIGS = ['ocr_scrub', 'clean_qq,parse_qq', 'segment,sec_within',
                  'sec_colon_cautious', 'ocr_scrub,segment,parse_qq', '']
STRUCTURAL_CONFIGS = ['ocr_scrub,parse_qq', 'clean_qq,parse_qq',
                      'segment,parse_qq', 'sec_within', 'ocr_scrub,segment',
                      'sec_colon_cautious,parse_qq', 'ocr_scrub']
# A shard that has confirmed this many violations stops measuring (each
# costs three cut-off runs); the verdict is already decided.
MAX_CONFIRMED_PER_SHARD = 3


def plan(tier, seed):
    nshards = 16 if tier == 'quick' else 48
    shards = [{'family': 'pump', 'part': i, 'parts': nshards}
              for i in range(nshards)]
    shards.append({'family': 'structural'})
    shards.append({'family': 'repeat'})
    for i in range(2 if tier == 'quick' else 8):
        shards.append({'family': 'soup', 'n': 400 if tier == 'quick' else 1500,
                       'i': i})
    return shards


# ---------------------------------------------------------------------------

_CAL_RGX = re.compile(r'(\s*[:,;.\-]*\s*)(o*f*)?\s*(t*h*e*)?\s*(.{0,25})(P\.?M\.?)',
                      re.I)
# CPU seconds the calibration loop takes on the machine this was written on
# (16-core sandbox, idle). Only ever used to WIDEN the budget.
CAL_REFERENCE_S = 0.30


def calibrate():
    t0 = time.process_time()
    s = 'T154N-R97W ' + '; ' * 40 + 'x'
    n = 0
    for _ in range(240):
        _CAL_RGX.search(s)
        for i in range(2000):
            n += i % 7
    return time.process_time() - t0


class Sampler:
    """ITIMER_PROF sampling of the innermost pytrs frame (mechanism label)."""

    def __init__(self):
        self.counts = collections.Counter()

    def _on_prof(self, signum, frame):
        f = frame
        while f is not None:
            fn = f.f_code.co_filename
            if '/pytrs/' in fn:
                mod = fn.split('/pytrs/')[-1].rsplit('.', 1)[0].replace('/', '.')
                self.counts[f"{mod}.{f.f_code.co_name}"] += 1
                return
            f = f.f_back
        self.counts['<outside pytrs>'] += 1

    def run(self, fn, box):
        old = signal.signal(signal.SIGPROF, self._on_prof)
        signal.setitimer(signal.ITIMER_PROF, 0.005, 0.005)
        try:
            with cpu_timebox(box):
                fn()
        except CaseTimeout:
            pass
        finally:
            signal.setitimer(signal.ITIMER_PROF, 0)
            signal.signal(signal.SIGPROF, old)
        return self.counts.most_common(3)


def parse_target(pytrs, text, target, cfg=None):
    if cfg is not None:
        pytrs.PLSSDesc(text, config=cfg)
    elif target == 'tract':
        # a tract description parsed directly (no description-level
        # preprocessing in front of it)
        pytrs.Tract(text, parse_qq=True)
        pytrs.Tract(text, parse_qq=True, config='clean_qq')
    else:
        pytrs.PLSSDesc(text, parse_qq=True)


def timed(pytrs, text, box, target='plss', cfg=None):
    """CPU seconds of one parse; ``box`` if it had to be cut off."""
    t0 = time.process_time()
    try:
        with cpu_timebox(box):
            parse_target(pytrs, text, target, cfg)
    except CaseTimeout:
        return box, True
    except Exception:
        # Totality is C03's business; the time until the exception counts.
        pass
    return time.process_time() - t0, False


def judge(ctx, pytrs, case, text, budget, decide=True):
    target = case.get('target', 'plss')
    shape = case.get('family', 'pump') + ('/tract' if target == 'tract' else '')
    nontrivial = bool(case.get('p') or case.get('s')) or shape != 'pump'
    cfg = case.get('cfg')
    ctx.case([text, target, cfg, case.get('k')], nontrivial and decide,
             shape=f"{shape}|len<={_bucket(len(text))}",
             sample={'text': text, 'len': len(text)})
    ctx.hit('timer:Tract' if target == 'tract' else 'timer:PLSSDesc')
    t, cut = timed(pytrs, text, budget * 3, target, cfg)
    rec = ctx.extra.setdefault('times', [])
    if t > budget * 0.1 or not decide:
        rec.append([round(t, 4), len(text), case])
    if t <= budget or not decide:
        return t
    # Confirmation: two more runs, the minimum decides.
    ctx.hit('confirmation-rerun')
    t2, _ = timed(pytrs, text, budget * 1.5, target, cfg)
    t3, _ = timed(pytrs, text, budget * 1.5, target, cfg)
    tmin = min(t, t2, t3)
    if tmin <= budget:
        ctx.hist['over-budget-once-not-confirmed'] += 1
        return tmin
    label = Sampler().run(lambda: parse_target(pytrs, text, target, cfg),
                          budget * 1.5)
    mech = label[0][0] if label else '?'
    vcase = dict(case)
    vcase['text'] = text
    # How many tracts does the text denote, and what does one cost? (For the
    # recorded finding: cost proportional to an output of tens of thousands
    # of tracts, as opposed to time lost inside a pattern.)
    n_tracts = per_tract_ms = None
    if target != 'tract':
        t0 = time.process_time()
        try:
            with cpu_timebox(budget * 20):
                n_tracts = len(pytrs.PLSSDesc(text, parse_qq=True).tracts)
        except CaseTimeout:
            pass
        except Exception:
            pass
        if n_tracts:
            per_tract_ms = round(1000 * (time.process_time() - t0) / n_tracts, 4)
    ctx.violation(
        'over-budget', vcase,
        f"{len(text)} characters took >= {tmin:.2f} s CPU (budget "
        f"{budget:.2f} s; three runs {t:.2f}/{t2:.2f}/{t3:.2f}"
        f"{', cut off' if cut else ''}); time is spent in {label}",
        dedup=f"{target}|{mech}|{case.get('u')!r}|{case.get('p')!r}",
        mechanism=mech, seconds=round(tmin, 3), length=len(text),
        n_tracts=n_tracts, per_tract_ms=per_tract_ms)
    # Only violations that are not the recorded finding count towards the
    # early stop of the shard (a recorded finding must not hide others).
    if classify({'kind': 'over-budget', 'n_tracts': n_tracts,
                 'per_tract_ms': per_tract_ms}) is None:
        ctx.extra['confirmed'] = ctx.extra.get('confirmed', 0) + 1
    else:
        ctx.extra['known_seen'] = ctx.extra.get('known_seen', 0) + 1
    return tmin


def _bucket(n):
    for b in (62, 125, 250, 400, 600):
        if n <= b:
            return b
    return 9999


def _pump(p, u, s, size):
    room = size - len(p) - len(s)
    n = max(1, room // len(u))
    return p + u * n + s


def _setup(ctx):
    import pytrs
    import warnings
    warnings.simplefilter('ignore')
    cal = min(calibrate() for _ in range(3))
    ctx.hit('calibration')
    factor = max(1.0, cal / CAL_REFERENCE_S)
    ctx.extra['calibration_s'] = round(cal, 4)
    ctx.extra['machine_factor'] = round(factor, 3)
    return pytrs, BUDGET_S * factor


def run_shard(shard, ctx):
    pytrs, budget = _setup(ctx)
    fam = shard['family']
    thorough = ctx.tier == 'thorough'
    if fam == 'pump':
        k = 0
        for pi, p in enumerate(PREFIXES):
            for ui, u in enumerate(UNITS):
                for si, s in enumerate(SUFFIXES):
                    k += 1
                    if k % shard['parts'] != shard['part']:
                        continue
                    if ctx.extra.get('confirmed', 0) >= MAX_CONFIRMED_PER_SHARD:
                        ctx.hist['skipped-after-enough-violations'] += 1
                        continue
                    if u in WIDE_RANGE_UNITS and 'Sec' in p \
                            and ctx.extra.get('known_seen', 0) >= 1:
                        # the recorded finding has been witnessed in
                        # this shard; each further witness costs ~20 s
                        ctx.hist['skipped-further-witnesses-of-known-finding'] += 1
                        continue
                    sizes = [SIZE_BOUND]
                    if thorough or k % 3 == ctx.seed % 3:
                        sizes = list(LADDER)
                    series = {}
                    for size in sizes:
                        case = {'family': 'pump', 'p': p, 'u': u, 's': s,
                                'size': size}
                        series[size] = judge(ctx, pytrs, case,
                                             _pump(p, u, s, size), budget)
                    if thorough:
                        for size in REPORT_SIZES:
                            # Do not walk into a family already slow at 250.
                            if series[SIZE_BOUND] > budget * 0.5:
                                break
                            case = {'family': 'pump', 'p': p, 'u': u, 's': s,
                                    'size': size, 'report_only': True}
                            series[size] = judge(
                                ctx, pytrs, case, _pump(p, u, s, size),
                                budget * 4, decide=False)
                        _growth(ctx, (p, u, s), series)
        # The same units pumped inside a tract description parsed directly.
        for pi, p in enumerate(TRACT_PREFIXES):
            for ui, u in enumerate(UNITS):
                for si, s in enumerate(TRACT_SUFFIXES):
                    k += 1
                    if k % shard['parts'] != shard['part']:
                        continue
                    if ctx.extra.get('confirmed', 0) >= MAX_CONFIRMED_PER_SHARD:
                        continue
                    case = {'family': 'pump', 'target': 'tract', 'p': p,
                            'u': u, 's': s, 'size': SIZE_BOUND}
                    judge(ctx, pytrs, case, _pump(p, u, s, SIZE_BOUND), budget)
        return
    if fam == 'repeat':
        # The budget holds for the 60th description parsed by a process as
        # for the first, under every optional mode and afterwards under the
        # default settings again.
        for cfg in REPEAT_CONFIGS:
            for k in range(60):
                if ctx.extra.get('confirmed', 0) >= MAX_CONFIRMED_PER_SHARD:
                    break
                text = (f"TIS{k % 10}N-R97W Sec {k % 36 + 1}: NE/4\n"
                        f"T{150 + k}N-R97W Sec 25: Lots 1 - 4, S/2N/2 of the "
                        f"NE, less and except the wellbore\n"
                        f"T155N-R97W Sec {k % 30 + 2}: ALL")
                ctx.hit('repeat')
                judge(ctx, pytrs, {'family': 'repeat', 'cfg': cfg, 'k': k},
                      text, budget)
        return
    if fam == 'structural':
        for idx, (text, what) in enumerate(_structural()):
            judge(ctx, pytrs, {'family': 'structural', 'what': what}, text,
                  budget)
            # ... and under one of the optional modes, in rotation
            cfg = STRUCTURAL_CONFIGS[idx % len(STRUCTURAL_CONFIGS)]
            ctx.hit('structural:mode')
            judge(ctx, pytrs, {'family': 'structural', 'what': what,
                               'cfg': cfg}, text, budget)
        return
    if fam == 'soup':
        from ..gen import soup
        rng = ctx.rng('soup', shard['i'])
        for _ in range(shard['n']):
            text = soup.token_soup(rng, maxtok=30)[:SIZE_BOUND]
            if rng.random() < 0.3:
                text = soup.char_soup(rng, 120)[:SIZE_BOUND]
            judge(ctx, pytrs, {'family': 'soup'}, text, budget)
        return
    raise ValueError(fam)


def _growth(ctx, key, series):
    sizes = sorted(series)
    if len(sizes) < 2:
        return
    a, b = sizes[-2], sizes[-1]
    if series[a] > 0.02 and series[b] > 0.02:
        expo = math.log(series[b] / series[a]) / math.log(b / a)
        ctx.extra.setdefault('growth', []).append(
            [round(expo, 2), round(series[b], 3), b, list(key)])


def _structural():
    out = []
    for k in range(1, 11):
        out.append(("\n".join(["T154N-R97W Sec 14: NE/4"] * k), f"rep-twprge-lines:{k}"))
        out.append(("\n".join([f"T{150 + i}N-R97W Sec 14: NE/4" for i in range(k)]),
                    f"distinct-twprge-lines:{k}"))
        out.append(("; ".join([f"NE/4 of Sec {i + 1}, T154N-R97W" for i in range(k)]),
                    f"desc_STR-entries:{k}"))
    for k in (12, 14, 16, 18, 20, 24, 30):
        # many short lines naming the same Twp/Rge
        out.append(("T4N-R5W\n" * k, f"rep-twprge-only:{k}"))
        out.append(("\n".join(f"T4N-R5W Sec {i + 1}: ALL" for i in range(k)),
                    f"rep-twprge-short-lines:{k}"))
        out.append(("\n".join(f"Sec {i + 1}: ALL, T4N-R5W" for i in range(k)),
                    f"rep-twprge-sec-first-lines:{k}"))
    for k in range(1, 7):
        # the same wording (same warning, same context) on every line
        line = "T154N-R97W Sec 14: NE/4, less and except the wellbore"
        out.append(("\n".join([line] * k), f"rep-warning-lines:{k}"))
        out.append(("\n".join(f"T15{i}N-R97W Sec 14: NE/4, less and except "
                              f"the wellbore, from the surface down"
                              for i in range(k)), f"warning-lines:{k}"))
    for k in (5, 10, 20, 30):
        out.append(("T154N-R97W " + ", ".join(f"Sec {i}: NE/4" for i in range(1, k)), f"sections:{k}"))
        out.append(("T154N-R97W Sec 1: Lots " + ", ".join(str(i) for i in range(1, 2 * k)), f"lots:{k}"))
        out.append(("T154N-R97W Sec 1: " + ", ".join("N/2NE/4SW/4" for _ in range(k)), f"aliquots:{k}"))
        out.append(("T154N-R97W Sec 1: " + " ".join("Lot %d (40.00)," % i for i in range(1, k)), f"lot-acres:{k}"))
        out.append(("T154N-R97W Secs " + ", ".join(str(i) for i in range(1, 2 * k)) + ": ALL", f"multisec:{k}"))
        out.append(("T154N-R97W Sec 1: " + "N/2 of the " * k + "NE/4", f"ofthe-chain:{k}"))
        out.append(("Township 154 North, Range 97 West, of the 5th P.M., " * max(1, k // 5) + "Sec 1: ALL", f"pm-lines:{k}"))
    # A long list, then something that makes the surrounding pattern fail
    # or forces the list to be re-read (second Twp/Rge, trailing text).
    for k in (8, 12, 16, 20, 25, 30, 40):
        secs = ', '.join(str(i) for i in range(1, k + 1))
        lots = ', '.join(str(i) for i in range(1, k + 1))
        for tail, tw in ((': NE/4, T155N-R97W Sec 1: ALL', 'colon+twprge'),
                         (' NE/4, T155N-R97W Sec 1: ALL', 'twprge'),
                         (', T155N-R97W', 'comma-twprge'),
                         (' of T155N-R97W', 'of-twprge'),
                         (': NE/4', 'plain'), (' and', 'dangling-and')):
            out.append((f"T154N-R97W Secs {secs}{tail}", f"seclist:{k}:{tw}"))
            out.append((f"NE/4 of Secs {secs}{tail}", f"seclist-first:{k}:{tw}"))
        # ... joined by words rather than commas
        for j in (' and ', ' & ', ' and/or ', ' or ', ' thru ', ' to ', '/',
                  ' and, ', '; '):
            jsecs = j.join(str(i) for i in range(1, k + 1))
            out.append((f"T154N-R97W Secs {jsecs}: NE/4, T155N-R97W Sec 1: ALL",
                        f"seclist-joined:{j.strip() or j!r}:{k}"))
            out.append((f"T154N-R97W Sec 1: Lots {jsecs} of Sec 5, T155N-R97W",
                        f"lotlist-joined:{j.strip() or j!r}:{k}"))
        # ... each item with its own keyword ('Sec. 1, Sec. 2, ...'; 'Lot 1,
        # Lot 2, ...')
        for word in ('Sec.', 'Sect.', 'Section', 'Secs', '§'):
            kw_secs = ', '.join(f"{word} {i}" for i in range(1, k + 1))
            for tail, tw in ((': NE/4, T155N-R97W Sec 1: ALL', 'colon+twprge'),
                             (', T155N-R97W', 'comma-twprge'),
                             (' NE/4', 'no-colon')):
                out.append((f"T154N-R97W {kw_secs}{tail}",
                            f"kw-seclist:{word}:{k}:{tw}"))
        for word in ('Lot', 'L.', 'Lt.'):
            kw_lots = ', '.join(f"{word} {i}" for i in range(1, k + 1))
            out.append((f"T154N-R97W Sec 1: {kw_lots} of Sec 5, T155N-R97W",
                        f"kw-lotlist:{word}:{k}"))
        for tail, tw in ((' of Sec 5, T155N-R97W', 'of-sec'), (', NE/4', 'aliq'),
                         (' and', 'dangling-and'), (' (40.00', 'open-acreage'),
                         (' N/2 W/2 T5N', 'twp-lookalike')):
            out.append((f"T154N-R97W Sec 1: Lots {lots}{tail}",
                        f"lotlist:{k}:{tw}"))
            out.append((f"T154N-R97W Sec 1: N/2 of Lots {lots}{tail}",
                        f"lotdivlist:{k}:{tw}"))
    return [(t[:SIZE_BOUND], w) for t, w in out]


def summarise_extra(extras):
    times, growth, cal = [], [], []
    for e in extras:
        times.extend(e.get('times', []))
        growth.extend(e.get('growth', []))
        if 'calibration_s' in e:
            cal.append(e['calibration_s'])
    times.sort(key=lambda x: -x[0])
    growth.sort(key=lambda x: -x[0])
    decide = [t for t in times if not t[2].get('report_only')]
    return {
        'budget_s': BUDGET_S, 'size_bound': SIZE_BOUND,
        'calibration_s_min_max': [min(cal), max(cal)] if cal else None,
        'slowest_deciding': [
            {'cpu_s': t[0], 'len': t[1], 'case': t[2]} for t in decide[:12]],
        'slowest_report_only': [
            {'cpu_s': t[0], 'len': t[1], 'case': t[2]}
            for t in times if t[2].get('report_only')][:8],
        'steepest_growth_exponents': [
            {'exponent': g[0], 'cpu_s_at_largest': g[1], 'largest': g[2],
             'prefix_unit_suffix': g[3]} for g in growth[:10]],
    }


def replay(case, ctx):
    pytrs, budget = _setup(ctx)
    judge(ctx, pytrs, {k: v for k, v in case.items() if k != 'text'},
          case['text'], budget)


def classify(v):
    """
    'ranges-denote-tens-of-thousands-of-tracts': the parse completes, yields
    >= 10 000 tracts (section ranges such as 'Sec 1-999, 1-999, ...') and
    costs <= 0.5 ms of CPU per tract -- the time is the price of an output
    150 times the size of the input, not time lost in a pattern.
    """
    if v.get('kind') == 'over-budget' and (v.get('n_tracts') or 0) >= 10000 \
            and v.get('per_tract_ms') is not None \
            and v["per_tract_ms"] <= 0.5:
        return 'ranges-denote-tens-of-thousands-of-tracts'
    return None


MANIFEST_TEXT = (
    "Held (up to the recorded finding: section ranges that denote tens of "
    "thousands of tracts) on every execution observed: ~25k pumping triples "
    "(unit x prefix x suffix) at 250 characters plus ladders, the same units "
    "in directly parsed Tracts, structural lists, 60 consecutive parses per "
    "optional mode in one process and token soup, each parse timed in CPU seconds inside a CPU-time box and judged "
    "against 2.0 s x machine factor with two confirming re-runs; thorough "
    "adds the full 62/125/250 ladder and report-only 400/600 sizes with "
    "growth exponents. Bounded exploration of the pumping space, not a "
    "complexity proof.")
LEVEL_NOTE = (
    "Trusts process CPU time (time.process_time / ITIMER_VIRTUAL) and the "
    "calibration loop; inputs outside the unit/prefix/suffix vocabulary and "
    "sizes > 250 are not judged.")
TECHNIQUE = ("resource monitor: per-case CPU-time measurement in isolated "
             "workers with CPU-time watchdog, confirmation re-runs and "
             "sampling attribution of time to pytrs functions")
