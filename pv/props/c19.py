"""C19 -- bulk export is faithful, ordered and total over documented attributes."""

import collections
import csv
import os
import re
import sys
import tempfile

from ..common import short
from ..gen import plss as G

PROP = 'C19'
RULE = (
    "Parsed descriptions (C01 descriptions and hand-made ones with lots, "
    "acreages, duplicate and non-sequential lists, flags with context, "
    "multi-line text, commas and quotes, fallback/error tracts) exported "
    "with every single attribute of Tract.ATTRIBUTES (exhaustive) and random "
    "subsets/orders of 1-6 names (incl. an unknown name) through "
    "tracts_to_dict / tracts_to_list / iter_to_dict / iter_to_list (PLSSDesc "
    "and TractList), tracts_to_csv (PLSSDesc and TractList) and TractWriter "
    "(with plus_cols / uid), header options {False, True, list, dict}, modes "
    "'w' and 'a' (new and existing file). Oracle: one record per tract in "
    "order with values == getattr(tract, name) ('<name>: n/a' for an unknown "
    "name); csv re-read with csv.reader: header row iff the file is new, one "
    "row per tract, each cell == str(scalar) ('' for None) or the list / dict "
    "items' str in order with only separator characters between. The rows "
    "handed to csv.writer.writerow are recorded by a proxy and files opened "
    "are listed through a sys.addaudithook. Non-trivial: >= 2 tracts and a "
    "list- or dict-valued attribute. Distinct by (text, attributes, writer, "
    "options)."
)
ASSUMPTIONS = [
    "Separator strings between list items are not pinned (only that nothing "
    "but separator characters stands between consecutive items).",
]
MIN_NONTRIVIAL = {'quick': 1500, 'thorough': 30000}
REQUIRED_MONITORS = ['records', 'csv:tracts_to_csv', 'csv:TractWriter',
                     'proxy:writerow', 'audit:open', 'single-attribute',
                     'csv:existing-empty', 'csv:TractWriter:reopen']

TEXTS = [
    'T154N-R97W Sec 14: Lots 1(40.1), 2, N/2 of Lot 3, NE/4, "quoted", less '
    'and except wellbore\nline two, Sec 15: W/2 T155N-R97W',
    'T154N-R97W Sec 14: Lots 1, 1, NE/4, NE/4, Sec 9 - 7: Lots 5 - 3 [39.99]',
    'NE/4 of Section, T154N-R97W',
    'T154-R97 Sec 14: NE/4, that part of Section 4 of T155N-R97W lying north',
    'T154N-R97W Sec 14 NE/4',
    'foo, "bar"\nbaz',
    'T154N-R97W Sec 1: Lot 1 (40.00), Lot 2 (39.50), S/2N/2; Sec 2: ALL',
    'T154N-R97W Sec 14: NE/4, a\\k\\a "the Johnson tract", Book 12\\Page 40; '
    "it's 50% of the W/2\t(tab)\r\nSec 15: that part \\ less and except",
    # old-Mac line ends: a carriage return on its own
    'T154N-R97W Sec 14: NE/4\rthat part lying north\rSec 15: W/2',
    # distinct tracts that read alike (same Twp/Rge/Sec, same description):
    # each is a row of its own
    'T154N-R97W Sec 14: NE/4, Sec 15: W/2, Sec 14: NE/4',
    'T154N-R97W Sec 1, 2 and 1: Lots 1 - 3, Sec 2: Lots 1 - 3',
]
CONFIGS = ['parse_qq', 'parse_qq,clean_qq', 'parse_qq,sec_colon_cautious',
           'parse_qq,segment', '', 'parse_qq,qq_depth.1']


def plan(tier, seed):
    if tier == 'quick':
        return ([{'family': 'singles', 'i': 0}]
                + [{'family': 'random', 'n': 700, 'i': i} for i in range(8)])
    return ([{'family': 'singles', 'i': 0}]
            + [{'family': 'random', 'n': 5000, 'i': i} for i in range(16)])


_SEP_ONLY = re.compile(r'^[\s,;:|]*$')


def flat_items(v):
    out = []
    for x in v:
        if isinstance(x, (list, tuple)):
            out.extend(flat_items(x))
        else:
            out.append(x)
    return out


def cell_problem(cell, v):
    """None, or why the csv cell does not render the attribute value ``v``."""
    if v is None:
        return None if cell == '' else f"None rendered as {cell!r}"
    if isinstance(v, dict):
        parts = []
        for k, x in v.items():
            parts += [str(k), str(x)]
    elif isinstance(v, (list, tuple)):
        parts = [str(x) for x in flat_items(v)]
    else:
        return None if cell == str(v) else \
            f"scalar {v!r} rendered as {short(cell, 80)!r}"
    pos = 0
    for p in parts:
        i = cell.find(p, pos)
        if i < 0:
            return (f"item {p!r} of {short(repr(v), 80)} is missing / out of "
                    f"order in the cell {short(cell, 100)!r}")
        if not _SEP_ONLY.match(cell[pos:i]):
            return (f"cell {short(cell, 100)!r} has {cell[pos:i]!r} between "
                    f"items of {short(repr(v), 80)}")
        pos = i + len(p)
    if not _SEP_ONLY.match(cell[pos:]):
        return f"cell {short(cell, 100)!r} has trailing {cell[pos:]!r}"
    return None


class Proxy:
    """Stands in for csv.writer objects: records the rows handed over."""
    rows = []

    def __init__(self, real, ctx):
        self._real = real
        self._ctx = ctx

    def writerow(self, row):
        self._ctx.hit('proxy:writerow')
        Proxy.rows.append(list(row))
        return self._real.writerow(row)

    def writerows(self, rows):
        for r in rows:
            self.writerow(r)

    def __getattr__(self, name):
        return getattr(self._real, name)


OPENED = []


def _setup(ctx):
    import pytrs
    import warnings
    warnings.simplefilter('ignore')
    real_writer = csv.writer

    def writer(f, *a, **k):
        return Proxy(real_writer(f, *a, **k), ctx)
    csv.writer = writer

    def hook(event, args):
        if event == 'open' and args and isinstance(args[0], (str, bytes)) \
                and str(args[0]).endswith('.csv'):
            OPENED.append((str(args[0]), args[1]))
            ctx.hit('audit:open')
    sys.addaudithook(hook)
    work = os.environ.get('PV_WORKDIR') or tempfile.gettempdir()
    tmp = tempfile.mkdtemp(prefix='c19-', dir=work)
    return pytrs, tmp


def expected_value(t, name):
    """The attribute's value; the 'n/a' placeholder only for a name that is
    not one of Tract.ATTRIBUTES. (A documented attribute is read WITHOUT a
    default: if reading it raises, the export must not paper over that with
    the placeholder -- the exception surfaces here as a violation.)"""
    if name in type(t).ATTRIBUTES:
        return getattr(t, name)
    return getattr(t, name, f"{name}: n/a")


def check_records(case, d, ctx, pytrs):
    attrs = case['attrs']
    tracts = list(d.tracts)
    tl = pytrs.TractList(tracts)
    ctx.hit('records')
    if len(tracts) % 3 == 0:
        # the empty selection: still one (empty) record per tract
        ctx.hit('records:no-attributes')
        for holder_name, holder in (('PLSSDesc', d), ('TractList', tl)):
            for what, recs in (
                    ('tracts_to_dict()', holder.tracts_to_dict()),
                    ('tracts_to_list([])', holder.tracts_to_list([])),
                    ('iter_to_dict()', list(holder.iter_to_dict())),
                    ('iter_to_list([])', list(holder.iter_to_list([])))):
                if len(recs) != len(tracts) or any(len(r) for r in recs):
                    ctx.violation('record-count', case,
                                  f"{holder_name}.{what}: {short(repr(recs), 80)}"
                                  f" for {len(tracts)} tracts, expected one "
                                  f"empty record each", dedup='empty|' + what)
                    return
    for holder_name, holder in (('PLSSDesc', d), ('TractList', tl)):
        dicts = holder.tracts_to_dict(*attrs)
        lists = holder.tracts_to_list(attrs)
        idicts = list(holder.iter_to_dict(*attrs))
        ilists = list(holder.iter_to_list(attrs))
        for what, recs in (('tracts_to_dict', dicts), ('iter_to_dict', idicts),
                           ('tracts_to_list', lists), ('iter_to_list', ilists)):
            if len(recs) != len(tracts):
                ctx.violation('record-count', case,
                              f"{holder_name}.{what}: {len(recs)} records for "
                              f"{len(tracts)} tracts", dedup=what)
                return
            for k, (t, rec) in enumerate(zip(tracts, recs)):
                exp = [expected_value(t, a) for a in attrs]
                got = [rec.get(a) for a in attrs] if isinstance(rec, dict) \
                    else list(rec)
                if isinstance(rec, dict) and list(rec) != list(dict.fromkeys(attrs)):
                    ctx.violation('record-keys', case,
                                  f"{what}: keys {list(rec)} for attributes "
                                  f"{attrs}", dedup=what)
                    return
                if got != exp:
                    ctx.violation(
                        'record-value', case,
                        f"{holder_name}.{what} record #{k}: {short(repr(got), 150)}"
                        f" != attribute values {short(repr(exp), 150)}",
                        dedup=what)
                    return


def check_csv(case, d, ctx, pytrs, tmp):
    from pytrs.tractwriter import TractWriter
    attrs, writer, mode = case['attrs'], case['writer'], case['mode']
    nice = case['nice']
    tracts = list(d.tracts)
    fp = os.path.join(tmp, f"f{ctx.evaluations}.csv")
    pre_rows = 0
    if case['existing'] == 'empty':
        # an existing file of size 0 (tempfile.mkstemp, touch)
        ctx.hit('csv:existing-empty')
        open(fp, 'w').close()
    elif case['existing']:
        with open(fp, 'w', newline='') as f:
            csv.writer(f).writerow(['old', 'file'])
        pre_rows = 1
    elif os.path.exists(fp):
        os.remove(fp)
    Proxy.rows = []
    plus_cols, plus_data, uid = None, None, None
    if writer == 'tracts_to_csv':
        ctx.hit('csv:tracts_to_csv')
        holder = d if case['holder'] == 'PLSSDesc' else pytrs.TractList(tracts)
        holder.tracts_to_csv(attrs, fp, mode, nice_headers=nice)
    else:
        ctx.hit('csv:TractWriter')
        plus_cols = case.get('plus_cols')
        plus_data = [f"x{i}" for i in range(len(plus_cols))] if plus_cols else None
        uid = case.get('uid')
        w = TractWriter(attrs, fp, mode, plus_cols=plus_cols,
                        nice_headers=nice, uid=uid)
        # "a Tract, PLSSDesc, TractList, or an iterable container of any
        # number and combination of them"
        how = ctx.evaluations % 7
        ctx.hit(f'csv:TractWriter:arg{how}')
        arg = (d if how == 0 else d.tracts if how == 1 else list(d.tracts)
               if how == 2 else [d] if how == 3
               else (pytrs.TractList(tracts[:1]), tracts[1:]) if how == 4
               else (t for t in tracts) if how == 5     # a generator
               else [iter(tracts[:1]), tracts[1:]])
        if case.get('reopen') and len(tracts) >= 2:
            # two sessions of one writer: write, close, open, write, close
            ctx.hit('csv:TractWriter:reopen')
            n = w.write(tracts[:1], plus_cols=plus_data)
            w.close()
            w.open()
            n += w.write(tracts[1:], plus_cols=plus_data)
        else:
            n = w.write(arg, plus_cols=plus_data)
        w.close()
        if n != len(tracts):
            ctx.violation('writer-count', case,
                          f"TractWriter.write returned {n} for "
                          f"{len(tracts)} tracts")
    with open(fp, newline='') as f:
        rows = list(csv.reader(f))
    os.remove(fp)
    kept_old = mode == 'a' and case['existing']
    header_expected = not kept_old
    if mode == 'w':
        pre_rows = 0
    exp_n = pre_rows + (1 if header_expected else 0) + len(tracts)
    if len(rows) != exp_n:
        ctx.violation(
            'csv-row-count', case,
            f"{writer} mode {mode!r} (existing file: {case['existing']}): "
            f"{len(rows)} rows in the file, expected {exp_n} "
            f"({len(tracts)} tracts, header {header_expected}, {pre_rows} "
            f"old rows)", dedup=f"{writer}|{mode}|{case['existing']}")
        return
    body = rows[pre_rows:]
    if header_expected:
        hdr = body[0]
        body = body[1:]
        if isinstance(nice, dict):
            exp_h = [nice.get(a, a) for a in attrs]
        elif isinstance(nice, list):
            exp_h = list(nice)
        elif nice:
            exp_h = [pytrs.Tract.ATTRIBUTES.get(a, a) for a in attrs]
        else:
            exp_h = list(attrs)
        if plus_cols:
            exp_h += list(plus_cols)
        if uid is not None:
            exp_h.append('UID')
        if hdr != exp_h:
            ctx.violation('csv-header', case,
                          f"header {hdr} != expected {exp_h}",
                          dedup=f"{writer}|{type(nice).__name__}")
            return
    for k, (t, row) in enumerate(zip(tracts, body)):
        ncols = len(attrs) + (len(plus_cols) if plus_cols else 0) \
            + (1 if uid is not None else 0)
        if len(row) != ncols:
            ctx.violation('csv-columns', case,
                          f"row #{k} has {len(row)} cells, expected {ncols}",
                          dedup=writer)
            return
        for a, cell in zip(attrs, row):
            why = cell_problem(cell, expected_value(t, a))
            if why:
                ctx.violation('csv-cell', case,
                              f"{writer} row #{k} column {a!r}: {why}",
                              dedup=f"{writer}|{a}")
                return
        if plus_cols and row[len(attrs):len(attrs) + len(plus_cols)] != plus_data:
            ctx.violation('csv-plus-cols', case, f"row #{k}: plus_cols data "
                          f"{row[len(attrs):]} != {plus_data}")
            return
    # What was handed to the csv module == what the file holds.
    handed = [[('' if c is None else str(c)) for c in r] for r in Proxy.rows]
    if handed != rows[pre_rows:]:
        ctx.violation('csv-proxy-mismatch', case,
                      "rows handed to csv.writer differ from the rows read "
                      "back from the file")


_SRC = collections.namedtuple('Src', 'doc page')


def mk_source(spec):
    """Source tags are arbitrary identifiers: str, int, tuple, list, or a
    named tuple such as (document, page)."""
    if isinstance(spec, dict):
        kind, items = next(iter(spec.items()))
        return (tuple(items) if kind == 'tuple' else list(items)
                if kind == 'list' else _SRC(*items))
    return spec


def run_case(case, ctx, pytrs, tmp):
    attrs = case['attrs']
    with ctx.guard(case):
        d = pytrs.PLSSDesc(case['text'], config=case['cfg'] or None,
                           source=mk_source(case.get('source')))
        listy = any(isinstance(getattr(d.tracts[0], a, None),
                               (list, tuple, dict)) for a in attrs) \
            if len(d.tracts) else False
        ctx.case([case['text'], case['cfg'], attrs, case['writer'],
                  case['mode'], case['existing'], repr(case['nice']),
                  case.get('holder'), case.get('plus_cols'), case.get('uid')],
                 len(d.tracts) >= 2 and listy,
                 shape=f"{case['writer']}|{case['mode']}|existing={case['existing']}",
                 sample={k: (short(v, 120) if isinstance(v, str) else v)
                         for k, v in case.items()})
        check_records(case, d, ctx, pytrs)
        check_csv(case, d, ctx, pytrs, tmp)


def gen_case(rng, pytrs, attrs=None):
    names = list(pytrs.Tract.ATTRIBUTES)
    if attrs is None:
        k = rng.randint(1, 6)
        attrs = rng.sample(names, k)
        if rng.random() < 0.15:
            attrs.insert(rng.randrange(len(attrs) + 1), 'bogus_attr')
    text = rng.choice(TEXTS) if rng.random() < 0.6 else \
        G.gen_case(rng, max_groups=2, max_secs=2)['text']
    nice = rng.choice([False, False, True, 'list', 'dict'])
    if nice == 'list':
        nice = [f"H{i}" for i in range(len(attrs))]
    elif nice == 'dict':
        nice = {a: f"hdr_{a}" for a in attrs[::2]}
    writer = rng.choice(['tracts_to_csv', 'TractWriter'])
    case = {'text': text, 'cfg': rng.choice(CONFIGS), 'attrs': attrs,
            'writer': writer, 'mode': rng.choice(['w', 'w', 'a']),
            'existing': rng.choice([False, False, False, True, True,
                                    'empty']), 'nice': nice,
            'holder': rng.choice(['PLSSDesc', 'TractList']),
            'source': rng.choice([None, 'doc-17', 5, {'tuple': ['doc', 3]},
                                  {'list': ['a', 'b']},
                                  {'namedtuple': ['deed', 12]}])}
    if writer == 'TractWriter':
        case['plus_cols'] = rng.choice([None, None, ['extra'], ['a', 'b']])
        case['uid'] = rng.choice([None, None, 1, 27])
        case['reopen'] = rng.random() < 0.3
    return case


def run_shard(shard, ctx):
    pytrs, tmp = _setup(ctx)
    rng = ctx.rng(shard['family'], shard['i'])
    try:
        if shard['family'] == 'singles':
            for a in list(pytrs.Tract.ATTRIBUTES) + ['bogus_attr']:
                for text in TEXTS:
                    for writer in ('tracts_to_csv', 'TractWriter'):
                        ctx.hit('single-attribute')
                        case = gen_case(rng, pytrs, attrs=[a])
                        case.update(text=text, cfg='parse_qq', writer=writer)
                        if writer == 'tracts_to_csv':
                            case.pop('plus_cols', None)
                            case.pop('uid', None)
                        run_case(case, ctx, pytrs, tmp)
            return
        for _ in range(shard['n']):
            run_case(gen_case(rng, pytrs), ctx, pytrs, tmp)
    finally:
        ctx.extra['files_opened'] = len(OPENED)
        ctx.extra['opened_outside_workdir'] = sorted(
            {p for p, _ in OPENED if not p.startswith(tmp)})[:5]


def replay(case, ctx):
    pytrs, tmp = _setup(ctx)
    run_case(case, ctx, pytrs, tmp)


MANIFEST_TEXT = (
    "Held on every export observed: every attribute of Tract.ATTRIBUTES "
    "alone on seven hostile descriptions through both csv writers "
    "(exhaustive), plus 5.6k (quick) / 80k (thorough) random attribute subsets "
    "x header options x write/append x new/existing file x PLSSDesc / "
    "TractList / TractWriter, with the files re-read by csv.reader and "
    "compared cell by cell with the tract attributes; rows handed to the csv "
    "module are recorded by a proxy. Exploration.")
LEVEL_NOTE = ("Trusts the cell-rendering oracle cell_problem() and "
              "csv.reader for reading the files back.")
TECHNIQUE = ("reference-model monitor (attribute values vs records / "
             "re-read csv cells) with a recording proxy on csv.writer and a "
             "sys.addaudithook on file opens")
