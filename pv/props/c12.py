"""C12 -- the Twp/Rge/Sec standard form is canonical, round-trips, is strict."""

import itertools

from ..oracles import trs as O

PROP = 'C12'
RULE = (
    "Cases: (a) TRS.from_twprgesec / Tract.from_twprgesec over twp,rge in "
    "0..999, sec in 0..99, each component given as int (direction from "
    "default_ns/default_ew argument or MasterConfig), digit string, or string "
    "with a direction letter in either case -- each axis enumerated "
    "exhaustively with the others fixed, plus random cross products; "
    "(b) wrapping strings: valid standard strings (placeholder forms "
    "included) and every single-character insertion / deletion / "
    "substitution / transposition (alphabet 0-9 n s e w N S E W x X z Z _ "
    "space - / : .) of seed strings, plus prefix/suffix junk, and (thorough) "
    "~480k random double edits; also via Tract(desc, trs=s). "
    "Oracle: own anchored grammar (pv/oracles/trs.py). Non-trivial: a "
    "construction with at least one component passed as a string or a "
    "section < 10 (padding), or a wrapped string that is NOT exactly "
    "standard or contains a placeholder. Distinct by the case itself."
)
ASSUMPTIONS = [
    "Direction-letter case variants of a standard string may yield either "
    "the canonical string or an error TRS (documented case-insensitivity).",
    "A Twp/Rge without section ('154n97w') may yield an error *section* "
    "('154n97wXX'); the requirement is an error component, not the all-error "
    "TRS.",
    "Digit strings with leading zeros for twp/rge are not generated.",
]
MIN_NONTRIVIAL = {'quick': 20000, 'thorough': 200000}
REQUIRED_MONITORS = ['contract:trs_to_dict', 'construct', 'construct:ocr_scrub',
                     'construct:placeholder', 'wrap:dict-edited-by-caller',
                     'construct:upper-default', 'construct:static+setter',
                     'construct:setter-on-used-object',
                     'wrap',
                     'wrap-nonstandard', 'eq-hash', 'tract-trs',
                     'eq-hash:reused-object']

ALPHABET = "0123456789nsewNSEWxXzZ_ -/:." + "\uff11\u0663\u00b2\u0967"   # + non-ASCII digits


def plan(tier, seed):
    shards = []
    if tier == 'quick':
        shards.append({'family': 'axes'})
        for i in range(3):
            shards.append({'family': 'cross', 'n': 10000, 'i': i})
        for i in range(4):
            shards.append({'family': 'nearmiss', 'seeds': 12, 'i': i})
    else:
        shards.append({'family': 'axes'})
        for i in range(10):
            shards.append({'family': 'cross', 'n': 100000, 'i': i})
        for i in range(10):
            shards.append({'family': 'nearmiss', 'seeds': 25, 'i': i})
        for i in range(8):
            shards.append({'family': 'nearmiss2', 'n': 60000, 'i': i})
    return shards


# ---------------------------------------------------------------------------

def _encode(num, d, enc):
    """One component in the requested encoding; returns (value, explicit)."""
    if enc == 'int':
        return num, False
    if enc == 'str':
        return str(num), False
    if enc == 'lower':
        return f"{num}{d}", True
    if enc == 'upper':
        return f"{num}{d.upper()}", True
    if enc == 'pad':
        # digit string with leading zeros ('007'): the number is the same
        return f"{num:03d}", False
    if enc == 'pad-lower':
        return f"{num:03d}{d}", True
    raise ValueError(enc)


_LIVED = {}
ENCODINGS = ('int', 'str', 'lower', 'upper', 'pad', 'pad-lower')
SEC_ENCODINGS = ('int', 'str', 'str2')


def _check_construct(ctx, rep, pytrs, t, ns, r, ew, s, tenc, renc, senc,
                     channel):
    """One construction; compares against the canonical model string."""
    case = {'op': 'construct', 't': t, 'ns': ns, 'r': r, 'ew': ew, 's': s,
            'tenc': tenc, 'renc': renc, 'senc': senc, 'channel': channel}
    rep.set_case(case)
    tv, texp = _encode(t, ns, tenc)
    rv, rexp = _encode(r, ew, renc)
    sv = s if senc == 'int' else (str(s) if senc == 'str' else f"{s:02d}")
    expected = f"{t}{ns}{r}{ew}{s:02d}"
    nontrivial = tenc != 'int' or renc != 'int' or senc != 'int' or s < 10
    ctx.case(case, nontrivial, shape=f"construct:{tenc}/{renc}/{senc}/{channel}",
             sample=case)
    ctx.hit('construct')
    MC = pytrs.MasterConfig
    with ctx.guard(case):
        saved = (MC.default_ns, MC.default_ew)
        try:
            kw = {}
            # The default directions may legally be spelt in upper case
            # ('N', 'S', 'E', 'W'); the result is lower-case all the same.
            up = (t * 7 + r * 3 + s) % 4 == 1
            dns, dew = (ns.upper(), ew.upper()) if up else (ns, ew)
            if up and channel in ('arg', 'master'):
                ctx.hit('construct:upper-default')
            if channel == 'arg':
                # Defaults passed as arguments; MasterConfig set to the
                # opposite so that a wrong source is visible.
                kw = {'default_ns': dns, 'default_ew': dew}
                MC.default_ns = 's' if ns == 'n' else 'n'
                MC.default_ew = 'e' if ew == 'w' else 'w'
            elif channel == 'master':
                # the same components were built a moment ago while
                # MasterConfig said the opposite
                MC.default_ns = 's' if ns == 'n' else 'n'
                MC.default_ew = 'e' if ew == 'w' else 'w'
                pytrs.TRS.from_twprgesec(tv, rv, sv)
                pytrs.TRS.construct_trs(tv, rv, sv)
                MC.default_ns, MC.default_ew = dns, dew
            elif channel == 'explicit-vs-default':
                # Explicit letters must win over contrary defaults.
                if not (texp and rexp):
                    return
                kw = {'default_ns': 's' if ns == 'n' else 'n',
                      'default_ew': 'e' if ew == 'w' else 'w'}
            obj = pytrs.TRS.from_twprgesec(tv, rv, sv, **kw)
            got = obj.trs
            # ocr_scrub only re-reads look-alike LETTERS inside the numbers;
            # on clean digits (+ direction letter) it must change nothing.
            if (t + r + s) % 3 == 0:
                ctx.hit('construct:ocr_scrub')
                o2 = pytrs.TRS.from_twprgesec(tv, rv, sv, ocr_scrub=True, **kw)
                if o2.trs != got:
                    ctx.violation(
                        'ocr_scrub-changes-clean-components', case,
                        f"from_twprgesec({tv!r},{rv!r},{sv!r},{kw}) -> {got!r}"
                        f" but with ocr_scrub=True -> {o2.trs!r}",
                        dedup=f"{tenc}|{renc}")
            tr = pytrs.Tract.from_twprgesec('x', tv, rv, sv, **kw)
            # The two other documented ways to build the string: the static
            # builder and the setter's return value.
            ctx.hit('construct:static+setter')
            direct = pytrs.TRS.construct_trs(tv, rv, sv, **kw)
            # the setter on a fresh object, or on one that holds another
            # Twp/Rge/Sec with the opposite directions: what the object
            # held before does not stand in for a missing direction
            if (t + r + s) % 2:
                setter_obj = pytrs.TRS()
            else:
                ctx.hit('construct:setter-on-used-object')
                setter_obj = pytrs.TRS(
                    f"27{'s' if ns == 'n' else 'n'}"
                    f"14{'e' if ew == 'w' else 'w'}05")
            returned = setter_obj.set_twprgesec(tv, rv, sv, **kw)
            for label, val in (('TRS.construct_trs', direct),
                               ('set_twprgesec (returned)', returned),
                               ('set_twprgesec (.trs)', setter_obj.trs)):
                if val != expected:
                    ctx.violation(
                        'construct-not-canonical', case,
                        f"{label}({tv!r},{rv!r},{sv!r},{kw}) -> {val!r}, "
                        f"expected {expected!r}", dedup=label)
        finally:
            MC.default_ns, MC.default_ew = saved
        if got != expected:
            ctx.violation('construct-not-canonical', case,
                          f"from_twprgesec({tv!r},{rv!r},{sv!r},{kw}) -> "
                          f"{got!r}, expected {expected!r}")
            return
        if tr.trs != expected:
            ctx.violation('tract-construct-not-canonical', case,
                          f"Tract.from_twprgesec -> {tr.trs!r}, expected "
                          f"{expected!r}")
        exp = O.decompose(expected)
        for holder, name in ((obj, 'TRS'), (tr, 'Tract')):
            for k in ('twp', 'rge', 'sec', 'twprge', 'twp_num', 'twp_ns',
                      'rge_num', 'rge_ew', 'sec_num', 'twp_undef',
                      'rge_undef', 'sec_undef'):
                if getattr(holder, k) != exp[k]:
                    ctx.violation(
                        'attributes-not-decomposition', case,
                        f"{name}({expected!r}).{k} == {getattr(holder, k)!r},"
                        f" expected {exp[k]!r}")
                    return
        again = pytrs.TRS(got)
        ctx.hit('eq-hash')
        if again.trs != got:
            ctx.violation('wrap-not-idempotent', case,
                          f"TRS({got!r}).trs == {again.trs!r}")
        if not (again == obj) or hash(again) != hash(obj):
            ctx.violation('equal-strings-not-equal', case,
                          f"TRS({got!r}) built twice: == {again == obj}, "
                          f"hash equal {hash(again) == hash(obj)}")


_PH = {'twp': ('___z', 'XXXz'), 'rge': ('___z', 'XXXz'), 'sec': ('__', 'XX')}


def _check_placeholder_construct(ctx, rep, pytrs, kinds, t, ns, r, ew, s,
                                 ocr):
    """Components given as the undefined / error placeholder (or as empty
    input) are reported as such; the others are kept -- through every
    builder, with and without ocr_scrub."""
    case = {'op': 'construct-placeholder', 'kinds': list(kinds), 't': t,
            'ns': ns, 'r': r, 'ew': ew, 's': s, 'ocr': ocr}
    rep.set_case(case)
    ctx.case(case, True, shape=f"construct-placeholder:{'/'.join(kinds)}/{ocr}",
             sample=case)
    ctx.hit('construct:placeholder')
    valid = {'twp': f"{t}{ns}", 'rge': f"{r}{ew}", 'sec': f"{s:02d}"}
    given, expected = {}, {}
    for comp, kind in zip(('twp', 'rge', 'sec'), kinds):
        undef, err = _PH[comp]
        if kind == 'valid':
            given[comp], expected[comp] = valid[comp], valid[comp]
        elif kind == 'undef':
            given[comp], expected[comp] = undef, undef
        elif kind == 'error':
            given[comp], expected[comp] = err, err
        elif kind == 'none':
            given[comp], expected[comp] = None, undef
        else:
            given[comp], expected[comp] = '', undef
    exp = expected['twp'] + expected['rge'] + expected['sec']
    args = (given['twp'], given['rge'], given['sec'])
    with ctx.guard(case):
        setter_obj = pytrs.TRS()
        results = (
            ('TRS.construct_trs',
             pytrs.TRS.construct_trs(*args, ocr_scrub=ocr)),
            ('TRS.from_twprgesec',
             pytrs.TRS.from_twprgesec(*args, ocr_scrub=ocr).trs),
            ('set_twprgesec (returned)',
             setter_obj.set_twprgesec(*args, ocr_scrub=ocr)),
            ('set_twprgesec (.trs)', setter_obj.trs),
            ('Tract.from_twprgesec',
             pytrs.Tract.from_twprgesec(
                 'x', *args, config='ocr_scrub' if ocr else None).trs),
        )
        for label, val in results:
            if val != exp:
                ctx.violation(
                    'placeholder-construct-not-kept', case,
                    f"{label}{args!r} ocr_scrub={ocr} -> {val!r}, expected "
                    f"{exp!r}", dedup=f"{label}|{'/'.join(kinds)}|{ocr}")
        d = O.decompose(exp)
        obj = pytrs.TRS.from_twprgesec(*args, ocr_scrub=ocr)
        for comp in ('twp', 'rge', 'sec'):
            if bool(getattr(obj, f'{comp}_undef')) != d[f'{comp}_undef']:
                ctx.violation(
                    'placeholder-misreported', case,
                    f"from_twprgesec{args!r} ocr_scrub={ocr}: {comp}_undef == "
                    f"{getattr(obj, comp + '_undef')!r}, expected "
                    f"{d[comp + '_undef']!r}", dedup=f"{comp}|{ocr}")


def _check_wrap(ctx, rep, pytrs, s, origin):
    case = {'op': 'wrap', 's': s, 'origin': origin}
    rep.set_case(case)
    std = O.decompose(s) if isinstance(s, str) else None
    placeholder = std is not None and (
        std['twp_num'] is None or std['rge_num'] is None
        or std['sec_num'] is None)
    nontrivial = std is None or placeholder
    ctx.case(case, nontrivial,
             shape=f"wrap:{origin}:{'std' if std else 'nonstd'}",
             sample=case)
    ctx.hit('wrap')
    if std is None:
        ctx.hit('wrap-nonstandard')
    with ctx.guard(case):
        obj = pytrs.TRS(s)
        got = obj.trs
        why = O.check_wrap(s, got)
        if why is not None:
            ctx.violation('wrap-not-strict', case, why)
            return
        exp = O.decompose(got)
        if exp is None:
            ctx.violation('result-malformed', case,
                          f"TRS({s!r}).trs == {got!r} is not well-formed")
            return
        for k in ('twp', 'rge', 'sec', 'twprge', 'twp_num', 'twp_ns',
                  'rge_num', 'rge_ew', 'sec_num', 'twp_undef', 'rge_undef',
                  'sec_undef'):
            if getattr(obj, k) != exp[k]:
                ctx.violation(
                    'attributes-not-decomposition', case,
                    f"TRS({s!r}) -> {got!r} but .{k} == "
                    f"{getattr(obj, k)!r}, expected {exp[k]!r}")
                return
        # Placeholder reporting: error vs undefined, other components kept.
        for comp in ('twp', 'rge', 'sec'):
            is_err = obj.is_error(twp=comp == 'twp', rge=comp == 'rge',
                                  sec=comp == 'sec')
            is_undef = obj.is_undef(twp=comp == 'twp', rge=comp == 'rge',
                                    sec=comp == 'sec')
            if bool(is_err) != exp[f'{comp}_err'] \
                    or bool(is_undef) != exp[f'{comp}_undef']:
                ctx.violation(
                    'placeholder-misreported', case,
                    f"TRS({s!r}) -> {got!r}: {comp} is_error={is_err} "
                    f"is_undef={is_undef}, expected error="
                    f"{exp[f'{comp}_err']} undef={exp[f'{comp}_undef']}")
                return
        # The dict handed to a caller is the caller's: emptied / overwritten,
        # it changes nothing for the next object of the same string.
        if ctx.evaluations % 4 == 0 and isinstance(s, str):
            ctx.hit('wrap:dict-edited-by-caller')
            for src in (s, got):
                dct = pytrs.trs_to_dict(src)
                for key in list(dct):
                    dct[key] = 'JUNK'
            redo = pytrs.TRS(s)
            bad = [k for k in ('trs', 'twp', 'rge', 'sec', 'twp_num',
                               'rge_num', 'sec_num', 'twp_undef', 'sec_undef')
                   if getattr(redo, k) != getattr(obj, k)
                   or getattr(obj, k) != (got if k == 'trs' else exp[k])]
            if bad:
                ctx.violation(
                    'caller-edit-changes-decomposition', case,
                    f"after the dict returned by trs_to_dict({s!r}) was "
                    f"overwritten by its caller, TRS({s!r}).{bad[0]} == "
                    f"{getattr(redo, bad[0])!r} (the earlier object: "
                    f"{getattr(obj, bad[0])!r})", dedup=bad[0])
                return
        # Idempotence, equality, hash.
        again = pytrs.TRS(got)
        ctx.hit('eq-hash')
        if again.trs != got:
            ctx.violation('wrap-not-idempotent', case,
                          f"TRS({s!r}).trs == {got!r} but "
                          f"TRS({got!r}).trs == {again.trs!r}")
        if not (again == obj) or hash(again) != hash(obj) \
                or (again != obj):
            ctx.violation('equal-strings-not-equal', case,
                          f"TRS({s!r}) and TRS({got!r}) carry the same "
                          f"string but compare/hash differently")
        # One long-lived object, hashed, then re-set to this string: it
        # compares and hashes like a fresh object of the same string.
        ctx.hit('eq-hash:reused-object')
        lived = _LIVED.setdefault('trs', pytrs.TRS('1n1w01'))
        hash(lived)
        if ctx.evaluations % 2:
            lived.trs = s
        elif std is not None and std['twp_num'] is not None \
                and std['rge_num'] is not None and std['sec_num'] is not None \
                and got == (f"{std['twp_num']}{std['twp_ns']}{std['rge_num']}"
                            f"{std['rge_ew']}{std['sec_num']:02d}"):
            lived.set_twprgesec(std['twp'], std['rge'], std['sec'])
        else:
            lived.trs = s
        if lived.trs != got or not (lived == obj) or hash(lived) != hash(obj) \
                or lived not in {obj}:
            ctx.violation('equal-strings-not-equal', case,
                          f"a TRS object re-set to {s!r} holds {lived.trs!r}; "
                          f"== fresh object: {lived == obj}, hash equal: "
                          f"{hash(lived) == hash(obj)}", dedup='reused')
        # The same string through a Tract.
        if isinstance(s, str) or s is None:
            ctx.hit('tract-trs')
            t = pytrs.Tract('x', trs=s)
            if t.trs != got:
                ctx.violation('tract-trs-differs', case,
                              f"Tract('x', trs={s!r}).trs == {t.trs!r} but "
                              f"TRS({s!r}).trs == {got!r}")
            d = pytrs.trs_to_dict(s)
            if d.get('trs') != got:
                ctx.violation('trs_to_dict-differs', case,
                              f"trs_to_dict({s!r})['trs'] == {d.get('trs')!r}"
                              f" but TRS(...).trs == {got!r}")


def _seed_strings(rng, n):
    """Valid standard strings, including placeholder forms."""
    seeds = []
    nums = [0, 1, 2, 7, 9, 10, 27, 99, 100, 154, 999]
    for _ in range(n):
        t = rng.choice([rng.choice(nums), rng.randint(0, 999)])
        r = rng.choice([rng.choice(nums), rng.randint(0, 999)])
        s = rng.choice([0, 1, 9, 10, 14, 36, 99, rng.randint(0, 99)])
        twp = rng.choice([f"{t}{rng.choice('ns')}"] * 6 + ['XXXz', '___z'])
        rge = rng.choice([f"{r}{rng.choice('ew')}"] * 6 + ['XXXz', '___z'])
        sec = rng.choice([f"{s:02d}"] * 6 + ['XX', '__'])
        seeds.append(twp + rge + sec)
    return seeds


def _edits(s):
    for i in range(len(s) + 1):
        for c in ALPHABET:
            yield s[:i] + c + s[i:], 'ins'
    for i in range(len(s)):
        yield s[:i] + s[i + 1:], 'del'
        for c in ALPHABET:
            if c != s[i]:
                yield s[:i] + c + s[i + 1:], 'sub'
    if len(s) > 1:
        for i in range(len(s) - 1):
            yield s[:i] + s[i + 1] + s[i] + s[i + 2:], 'swap'


JUNK = ['1', '0', 'n', 'w', 'x', ' ', 'T', 'Sec ', '14', 'XX', '__', 'z',
        '154n', '97w', '\n', '-']


def run_shard(shard, ctx):
    import pytrs
    from ..monitors.core import Reporter
    from ..monitors import trs_contract
    rep = Reporter(ctx)
    trs_contract.install(ctx, rep, prop='C12')
    fam = shard['family']
    if fam == 'axes':
        # Each axis exhaustively, the others fixed.
        for t in range(0, 1000):
            for ns in 'ns':
                for enc in ENCODINGS:
                    ch = ('arg' if enc in ('int', 'str', 'pad')
                          else 'explicit-vs-default')
                    _check_construct(ctx, rep, pytrs, t, ns, 97, 'w', 14,
                                     enc, 'lower', 'int', ch)
        for r in range(0, 1000):
            for ew in 'ew':
                for enc in ENCODINGS:
                    ch = ('arg' if enc in ('int', 'str', 'pad')
                          else 'explicit-vs-default')
                    _check_construct(ctx, rep, pytrs, 154, 'n', r, ew, 14,
                                     'upper', enc, 'str', ch)
        for s in range(0, 100):
            for senc in SEC_ENCODINGS:
                for ch in ('arg', 'master'):
                    _check_construct(ctx, rep, pytrs, 154, 'n', 97, 'w', s,
                                     'int', 'int', senc, ch)
        # Undefined / empty input.
        for s in ('', None):
            _check_wrap(ctx, rep, pytrs, s, 'empty')
        # All-valid exhaustive small block of standard strings.
        for t, r, s in itertools.product((0, 1, 10, 154, 999), (0, 2, 97, 999),
                                         (0, 1, 14, 99)):
            for ns in 'ns':
                for ew in 'ew':
                    _check_wrap(ctx, rep, pytrs, f"{t}{ns}{r}{ew}{s:02d}",
                                'valid')
        for twp in ('154n', 'XXXz', '___z'):
            for rge in ('97w', 'XXXz', '___z'):
                for sec in ('14', 'XX', '__'):
                    _check_wrap(ctx, rep, pytrs, twp + rge + sec,
                                'placeholder')
        kinds = ('valid', 'undef', 'error', 'none', 'empty')
        for ks in itertools.product(kinds, repeat=3):
            for ocr in (False, True):
                for (t, ns, r, ew, sc) in ((154, 'n', 97, 'w', 14),
                                           (2, 's', 0, 'e', 1)):
                    _check_placeholder_construct(ctx, rep, pytrs, ks, t, ns,
                                                 r, ew, sc, ocr)
        return
    rng = ctx.rng(fam, shard['i'])
    if fam == 'cross':
        for _ in range(shard['n']):
            t = rng.choice([rng.randint(0, 9), rng.randint(10, 99),
                            rng.randint(100, 999)])
            r = rng.choice([rng.randint(0, 9), rng.randint(10, 99),
                            rng.randint(100, 999)])
            s = rng.choice([rng.randint(0, 9), rng.randint(10, 99)])
            tenc = rng.choice(ENCODINGS)
            renc = rng.choice(ENCODINGS)
            senc = rng.choice(SEC_ENCODINGS)
            explicit = (tenc in ('lower', 'upper', 'pad-lower')
                        and renc in ('lower', 'upper', 'pad-lower'))
            ch = rng.choice(['arg', 'master'] +
                            (['explicit-vs-default'] if explicit else []))
            _check_construct(ctx, rep, pytrs, t, rng.choice('ns'), r,
                             rng.choice('ew'), s, tenc, renc, senc, ch)
        return
    if fam == 'nearmiss':
        for seed_s in _seed_strings(rng, shard['seeds']):
            _check_wrap(ctx, rep, pytrs, seed_s, 'seed')
            for s, kind in _edits(seed_s):
                _check_wrap(ctx, rep, pytrs, s, kind)
            for j in JUNK:
                _check_wrap(ctx, rep, pytrs, j + seed_s, 'prefix')
                _check_wrap(ctx, rep, pytrs, seed_s + j, 'suffix')
            up = seed_s.upper()
            _check_wrap(ctx, rep, pytrs, up, 'upper')
        return
    if fam == 'nearmiss2':
        # Two random edits (sampled; distance 1 is exhaustive per seed).
        seeds = _seed_strings(rng, 400)
        for _ in range(shard['n']):
            s = rng.choice(seeds)
            for _e in range(2):
                op = rng.choice(('ins', 'del', 'sub', 'swap'))
                i = rng.randrange(len(s) + 1) if s else 0
                c = rng.choice(ALPHABET)
                if op == 'ins' or not s:
                    s = s[:i] + c + s[i:]
                elif op == 'del':
                    i = min(i, len(s) - 1)
                    s = s[:i] + s[i + 1:]
                elif op == 'sub':
                    i = min(i, len(s) - 1)
                    s = s[:i] + c + s[i + 1:]
                elif len(s) > 1:
                    i = min(i, len(s) - 2)
                    s = s[:i] + s[i + 1] + s[i] + s[i + 2:]
            _check_wrap(ctx, rep, pytrs, s, 'edit2')
        return
    raise ValueError(fam)


def replay(case, ctx):
    import pytrs
    from ..monitors.core import Reporter
    from ..monitors import trs_contract
    rep = Reporter(ctx)
    trs_contract.install(ctx, rep, prop='C12')
    if case['op'] == 'construct-placeholder':
        _check_placeholder_construct(ctx, rep, pytrs, tuple(case['kinds']),
                                     case['t'], case['ns'], case['r'],
                                     case['ew'], case['s'], case['ocr'])
    elif case['op'] == 'construct':
        _check_construct(ctx, rep, pytrs, case['t'], case['ns'], case['r'],
                         case['ew'], case['s'], case['tenc'], case['renc'],
                         case['senc'], case['channel'])
    else:
        _check_wrap(ctx, rep, pytrs, case['s'], case['origin'])

MANIFEST_TEXT = (
    "Held on every execution observed: each Twp/Rge/Sec axis enumerated "
    "exhaustively through every input encoding, random cross-products, and "
    "every single-character edit of a few hundred seed strings, all judged "
    "by an independent anchored grammar; an icontract post-condition on the "
    "real TRS.trs_to_dict checks every decomposition made anywhere. "
    "Exploration, not proof: strings more than one edit away from a valid "
    "form are only sampled.")
LEVEL_NOTE = (
    "Trusts pv/oracles/trs.py (40-line grammar of the standard form) and "
    "that case variants / missing section may legitimately give an error "
    "component.")
TECHNIQUE = ("runtime contract (icontract ensure on TRS.trs_to_dict) + "
             "reference-grammar oracle over exhaustive axes and edit-distance-1 "
             "string neighbourhoods")
