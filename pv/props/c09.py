"""C09 -- every tract is well-formed and traceable to its source."""

import pathlib

import icontract

from ..common import CaseTimeout, cpu_timebox, short
from ..gen import configs as CF
from ..gen import soup
from ..oracles import trs as O
from . import c03

PROP = 'C09'
RULE = (
    "Same text x configuration space as C03 (token soup, damaged "
    "descriptions, unicode, specials x random valid settings x channel), "
    "plus three-digit 'sections' and partial Twp/Rge. For every tract of "
    "PLSSDesc(text, config, source=tag) and of parse(commit=False): trs "
    "matches (1-3 digits + n/s | XXXz)(1-3 digits + e/w | XXXz)(2 digits | "
    "XX) -- never the undefined placeholder; twp/rge/sec/twprge/numbers/"
    "directions are exactly the decomposition of that string (oracle "
    "grammar); orig_desc is the complete input; source is the parent's; "
    "orig_index is the zero-based creation position. The same predicate "
    "runs as an icontract post-condition on PLSSParser.construct_tracts "
    "(each tract judged at the moment it is created). Non-trivial: >= 1 "
    "tract with a non-error Twp/Rge and >= 2 tracts, or an error component. "
    "Distinct by (text, settings, channel)."
)
ASSUMPTIONS = c03.ASSUMPTIONS[2:] + [
    "A three-digit section may yield the all-error TRS (well-formed is all "
    "that is required).",
]
MIN_NONTRIVIAL = {'quick': 4000, 'thorough': 100000}
REQUIRED_MONITORS = ['boundary:tract', 'contract:construct_tracts',
                     'contract:trs_to_dict']

ATTRS = ('twp', 'rge', 'sec', 'twprge', 'twp_num', 'twp_ns', 'rge_num',
         'rge_ew', 'sec_num', 'twp_undef', 'rge_undef', 'sec_undef')


def plan(tier, seed):
    if tier == 'quick':
        return [{'family': 'valid', 'n': 1500, 'i': i} for i in range(10)]
    return [{'family': 'valid', 'n': 12000, 'i': i} for i in range(32)]


def tract_problem(t, k, text, source):
    """None, or why tract ``t`` (created k-th from ``text``) is malformed."""
    trs = t.trs
    if not isinstance(trs, str) or O.PARSED.fullmatch(trs) is None:
        return f"trs {trs!r} is neither standard nor an error form"
    exp = O.decompose(trs)
    for a in ATTRS:
        if getattr(t, a) != exp[a]:
            return (f"{a} == {getattr(t, a)!r} is not the decomposition of "
                    f"{trs!r} (expected {exp[a]!r})")
    if t.twp + t.rge != t.twprge or t.twprge + t.sec != t.trs:
        return f"twp+rge+sec ({t.twp}+{t.rge}+{t.sec}) != trs {trs!r}"
    if t.orig_desc != text:
        return (f"orig_desc {short(t.orig_desc, 60)!r} is not the complete "
                f"original text")
    if t.source != source or type(t.source) is not type(source):
        return f"source {t.source!r} != parent's {source!r}"
    if t.orig_index != k:
        return f"orig_index {t.orig_index} != creation position {k}"
    return None


class ConstructBroken(Exception):
    pass


def install_contract(ctx, rep):
    from pytrs.parser.plssdesc.plss_parse import PLSSParser

    def new_tracts_wellformed(self, result):
        ctx.hit('contract:construct_tracts')
        base = len(self.tracts) - len(result)
        for j, t in enumerate(result):
            why = tract_problem(t, base + j, self.orig_text, self.source)
            if why is None and self.tracts[base + j] is not t:
                why = "new tract is not at its creation position in .tracts"
            if why is not None:
                rep.report('C09:construct_tracts-contract', why,
                           dedup=why[:40])
                break
        return True

    PLSSParser.construct_tracts = icontract.ensure(
        new_tracts_wellformed, error=ConstructBroken)(
            PLSSParser.__dict__['construct_tracts'])


def gen_case(rng):
    case = c03.gen_case(rng)
    r = rng.random()
    if r < 0.08:
        # three-digit "sections" and partial Twp/Rge
        case['text'] = rng.choice([
            'T154N-R97W Section 100: NE/4', 'T154N-R97W Sec 123: NE/4, Sec 5: W/2',
            'T154N Sec 14: NE/4', 'R97W Sec 14: NE/4', 'Sec 14: NE/4, T154N',
            'NE/4 of Section 999, T154N-R97W', 'T1000N-R97W Sec 1: ALL',
            'T154N-R1000W Sec 1: ALL', 'T0N-R0W Sec 0: ALL',
            'T154N-R97W Sec 14: NE/4 T155N-R97W', 'Sec 1: ALL Sec 2: ALL',
            'T154N-R97W T155N-R98W Sec 3: N/2', 'T154N-R97W Sec 1 - 150: ALL'])
        case['family'] = 'special-trs'
    return case


def run_case(case, ctx, rep, pytrs):
    text, st, kw = case['text'], case['settings'], case['keywords']
    rep.set_case(case)
    # Source tags are arbitrary identifiers: strings, row numbers (row 0
    # included), tuples, the empty string.
    source = ['SRC-%d' % (len(text) % 7), len(text) % 3, '', 0,
              ('batch', len(text) % 2), (), 0.0, False,
              pathlib.Path('/data/leases') / f"{len(text) % 5}.txt"
              ][len(text) % 9]
    try:
        with cpu_timebox(20):
            with ctx.guard(case):
                cfg = case['cfgtext'] if case['channel'] != 'none' else None
                if case['channel'] == 'object':
                    cfg = pytrs.Config(cfg)
                d = pytrs.PLSSDesc(text, config=cfg,
                                   layout=case['init_layout'],
                                   parse_qq=case['init_parse_qq'],
                                   source=source)
                if st.get('wait_to_parse') and cfg is not None:
                    d.parse()
                res = d.parse(commit=False, **CF.plss_parse_kwargs(kw))
                nontrivial = False
                for which, tracts in (('committed', d.tracts), ('returned', res)):
                    for k, t in enumerate(tracts):
                        ctx.hit('boundary:tract')
                        why = tract_problem(t, k, text, source)
                        if why is not None:
                            ctx.violation('tract-malformed', case,
                                          f"{which} tract #{k}: {why}",
                                          dedup=why[:30])
                            break
                        if t.trs_is_error() or len(tracts) >= 2:
                            nontrivial = True
                if len(text) % 5 == 0 and len(d.tracts):
                    # A caller scribbles over the dict that the public
                    # trs_to_dict() returned for these Twp/Rge/Sec strings;
                    # the same description parsed afterwards is unaffected.
                    ctx.hit('after-mutated-trs_to_dict')
                    for t in d.tracts[:3]:
                        dd = pytrs.trs_to_dict(t.trs)
                        for key in list(dd):
                            dd[key] = 'JUNK'
                    d2 = pytrs.PLSSDesc(text, config=cfg,
                                        layout=case['init_layout'],
                                        parse_qq=case['init_parse_qq'],
                                        source=source)
                    if st.get('wait_to_parse') and cfg is not None:
                        d2.parse()
                    for k, t in enumerate(d2.tracts):
                        why = tract_problem(t, k, text, source)
                        if why is not None:
                            ctx.violation(
                                'tract-malformed', case,
                                f"after a caller modified dicts returned by "
                                f"trs_to_dict(): tract #{k}: {why}",
                                dedup='mutated|' + why[:30])
                            break
                if len(text) % 4 == 1:
                    # The same object parsed again under other settings, its
                    # source tag re-assigned in between: position and origin
                    # of every tract are those of the LAST parse.
                    ctx.hit('reparse-traceable')
                    d.parse(sec_colon_required=True)
                    new_source = ('re-filed', len(text) % 7)
                    d.source = new_source
                    for kw2 in ({}, {'segment': True}, {'layout': 'copy_all'},
                                {}):
                        d.parse(**kw2)
                        for k, t in enumerate(d.tracts):
                            why = tract_problem(t, k, text, new_source)
                            if why is not None:
                                ctx.violation(
                                    'tract-malformed', case,
                                    f"after re-parsing the same object "
                                    f"(sec_colon_required, then {kw2}; source "
                                    f"re-assigned): tract #{k}: {why}",
                                    dedup='reparse|' + why[:30])
                                break
                ctx.case([text, case['cfgtext'], kw, case['channel'],
                          case['init_layout']], nontrivial,
                         shape=case['family'].split(':')[0],
                         sample={'text': short(text, 160),
                                 'config': case['cfgtext'],
                                 'tracts': [t.trs for t in d.tracts][:6]})
    except CaseTimeout:
        ctx.discard('slow')


def _setup(ctx):
    import pytrs
    import warnings
    from ..monitors.core import Reporter
    from ..monitors import trs_contract
    warnings.simplefilter('ignore')
    rep = Reporter(ctx)
    trs_contract.install(ctx, rep, prop='C09')
    install_contract(ctx, rep)
    return pytrs, rep


def run_shard(shard, ctx):
    pytrs, rep = _setup(ctx)
    rng = ctx.rng(shard['family'], shard['i'])
    for _ in range(shard['n']):
        run_case(gen_case(rng), ctx, rep, pytrs)


def replay(case, ctx):
    pytrs, rep = _setup(ctx)
    run_case(case, ctx, rep, pytrs)


MANIFEST_TEXT = (
    "Held on every tract observed: every tract produced from 15k (quick) / "
    "~380k (thorough) hostile text x configuration cases is judged against "
    "an independent grammar and decomposition model, both at the API "
    "boundary and by an icontract post-condition on "
    "PLSSParser.construct_tracts at the moment of creation. Exploration.")
LEVEL_NOTE = ("Trusts pv/oracles/trs.py; traceability is checked against the "
              "text/source handed to PLSSDesc by the harness.")
TECHNIQUE = ("runtime contract (icontract ensure on PLSSParser."
             "construct_tracts and TRS.trs_to_dict) + boundary predicate "
             "over hostile workloads")
