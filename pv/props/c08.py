"""C08 -- Twp/Rge spellings are equivalent; defaults fill only what is missing."""

import icontract

from ..common import short

PROP = 'C08'
RULE = (
    "Twp/Rge numbers of 1-3 digits (range '2' only with an explicit 'R'), 4 "
    "direction combinations, 6 documented spellings (compact, words, "
    "abbreviated, dashed, lower case, bare), each direction letter "
    "independently present or absent (absent only where a pp_twprge_no_* "
    "pattern documents it: 'T' present to omit N/S, 'R' present to omit "
    "E/W), default directions supplied through the config string, the "
    "parse() keywords, MasterConfig (set and restored) or find_twprge "
    "arguments, embedded before/after a section and block in two layouts; "
    "hostile-neighbour family: a direction-less range followed by an "
    "ordinary word beginning with e/w (never a direction word); OCR family: "
    "digits replaced by I/l/O/S under ocr_scrub; pair family: two Twp/Rge's "
    "in one description (also the same one written once in full and once "
    "without direction). Oracle: expected natural "
    "form T{t}{NS}-R{r}{EW} with NS/EW = explicit letter else the effective "
    "default: tract trs, pp_desc prefix, find_twprge(preprocess=True) and "
    "fixed_twprge warning <=> something was missing; an icontract "
    "post-condition on unpack_twprge asserts on every call anywhere that an "
    "explicit direction letter is never overridden. Thorough: compact "
    "spelling over t 1..199 x r 1..130 exhaustively. Non-trivial: not the "
    "compact spelling with both directions. Distinct by (text, defaults, "
    "channel)."
)
ASSUMPTIONS = [
    "The fixed_twprge warning is checked by substring; lower-case spelling "
    "only with both directions.",
    "A direction word after a direction-less number ('R97 west of ...') is a "
    "legitimate reading and is not generated as a hostile neighbour.",
]
MIN_NONTRIVIAL = {'quick': 12000, 'thorough': 200000}
REQUIRED_MONITORS = ['boundary:PLSSDesc', 'boundary:find_twprge',
                     'contract:unpack_twprge', 'default-filled',
                     'hostile-neighbour', 'ocr', 'ocr:no-digit-left', 'pair',
                     'channel:config-object-vs-later-master', 'segment-mode',
                     'channel:master-after-creation',
                     'channel:config-not-from-text',
                     'channel:keyword-then-plain',
                     'ocr-on-in-default-channels', 'boundary:preprocess']
EXHAUSTIVE_SUBSPACES = {
    'thorough': ["compact spelling, t 1..199 x r 1..130, directions rotating"],
}

_NS = {'n': 'North', 's': 'South'}
_EW = {'e': 'East', 'w': 'West'}
HOSTILE_WORDS = ['excluding', 'except the east ten feet', 'with all',
                 'which lies', 'entirely', 'wherein', 'each', 'either',
                 'when platted', 'whatever remains', 'everything',
                 'exclusive of the road', 'within the fence']


def forms(t, ns, r, ew, drop_ns=False, drop_ew=False):
    n_ = '' if drop_ns else ns.upper()
    e_ = '' if drop_ew else ew.upper()
    N_ = '' if drop_ns else ' ' + _NS[ns]
    E_ = '' if drop_ew else ' ' + _EW[ew]
    nd = '' if drop_ns else f' {ns.upper()}.'
    ed = '' if drop_ew else f' {ew.upper()}.'
    f = {
        'compact': f"T{t}{n_}-R{r}{e_}",
        'words': f"Township {t}{N_}, Range {r}{E_}",
        'abbr': f"Twp. {t}{nd}, Rge. {r}{ed}",
        'dashed': (f"T-{t}" + ('' if drop_ns else f"-{ns.upper()}")
                   + f"-R-{r}" + ('' if drop_ew else f"-{ew.upper()}")),
    }
    if not drop_ns:
        # township without its 'T', range with its 'R' (with or without the
        # E/W), also in lower case
        f['not-r'] = f"{t}{ns.upper()}-R{r}{e_}"
        f['not-r-lower'] = f"{t}{ns}-r{r}{e_.lower()}"
        f['not-words-lower'] = (f"{t} {_NS[ns].lower()}, range {r}"
                                + E_.lower())
    if not drop_ns and not drop_ew:
        f['lower'] = f"t{t}{ns}r{r}{ew}"
        if r != 2:
            f['bare'] = f"{t}{ns.upper()}-{r}{ew.upper()}"
    return f


def plan(tier, seed):
    if tier == 'quick':
        return [{'family': 'random', 'n': 2000, 'i': i} for i in range(8)]
    return ([{'family': 'random', 'n': 15000, 'i': i} for i in range(16)]
            + [{'family': 'grid', 'part': i, 'parts': 8} for i in range(8)])


def _embed(rng, twprge_txt, layout):
    if layout == 'TRS_desc':
        j = rng.choice([' ', ', ', '\n', ': '])
        return f"{twprge_txt}{j}Sec 14: NE/4", '14'
    return f"NE/4 of Sec 14, {twprge_txt}", '14'


def check(case, ctx, rep, pytrs):
    t, ns, r, ew = case['t'], case['ns'], case['r'], case['ew']
    dn, de = case['drop_ns'], case['drop_ew']
    dns, dew = case['default_ns'], case['default_ew']
    channel, txt = case['channel'], case['text']
    ens = dns if dn else ns
    eew = dew if de else ew
    want = f"T{t}{ens.upper()}-R{r}{eew.upper()}"
    trs = f"{t}{ens}{r}{eew}14"
    rep.set_case(case)
    ctx.case([txt, dns, dew, channel],
             not (case['form'] == 'compact' and not dn and not de),
             shape=f"{case['form']}|drop={int(dn)}{int(de)}|{channel}"
                   f"{'|hostile' if case.get('hostile') else ''}",
             sample={'text': txt, 'defaults': dns + dew, 'channel': channel,
                     'expect': want})
    MC = pytrs.MasterConfig
    saved = (MC.default_ns, MC.default_ew)
    # (every fourth case is parsed in `segment` mode: same reading)
    seg = bool(case.get('segment'))
    if seg:
        ctx.hit('segment-mode')

    ocr = bool(case.get('ocr_on'))
    if ocr:
        ctx.hit('ocr-on-in-default-channels')

    def cfg(x):
        return ','.join(filter(None, [x, 'segment' if seg else '',
                                      'ocr_scrub' if ocr else '']))
    with ctx.guard(case):
        try:
            if channel == 'config':
                d = pytrs.PLSSDesc(txt, config=cfg(f"{dns},{dew}"))
            elif channel == 'keyword':
                d = pytrs.PLSSDesc(txt, wait_to_parse=True)
                d.parse(default_ns=dns, default_ew=dew, segment=seg)
            elif channel == 'master':
                MC.default_ns, MC.default_ew = dns, dew
                d = pytrs.PLSSDesc(txt, config=cfg('') or None)
            elif channel == 'master-after-creation':
                # the object exists before MasterConfig is set: the defaults
                # in force when it is PARSED apply
                MC.default_ns = 's' if dns == 'n' else 'n'
                MC.default_ew = 'e' if dew == 'w' else 'w'
                d = pytrs.PLSSDesc(txt, config=cfg('') or None,
                                   wait_to_parse=True)
                MC.default_ns, MC.default_ew = dns, dew
                d.parse()
                ctx.hit('channel:master-after-creation')
            elif channel == 'config-object-vs-later-master':
                # The defaults are written into a Config object while
                # MasterConfig happens to say the same; the object is then
                # copied through its text form; MasterConfig changes before
                # the parse. The configured default still applies.
                MC.default_ns, MC.default_ew = dns, dew
                cfg = pytrs.Config(f"{dns},{dew}")
                cfg = pytrs.Config(cfg if (t + r) % 2 else
                                   cfg.decompile_to_text())
                MC.default_ns = 's' if dns == 'n' else 'n'
                MC.default_ew = 'e' if dew == 'w' else 'w'
                d = pytrs.PLSSDesc(txt, config=cfg)
                ctx.hit('channel:config-object-vs-later-master')
            elif channel == 'config-not-from-text':
                # a Config object that never was a text: built from keyword
                # arguments / a dict / by assigning attributes, handed over
                # at creation or assigned to a waiting description
                how = (t + 2 * r) % 3
                kw = {'default_ns': dns, 'default_ew': dew}
                if seg:
                    kw['segment'] = True
                if ocr:
                    kw['ocr_scrub'] = True
                if how == 0:
                    c = pytrs.Config.from_kwargs(**kw)
                elif how == 1:
                    c = pytrs.Config.from_dict(kw)
                else:
                    c = pytrs.Config()
                    for k_, v_ in kw.items():
                        setattr(c, k_, v_)
                if (t + r) % 2:
                    d = pytrs.PLSSDesc(txt, config=c)
                else:
                    d = pytrs.PLSSDesc(txt, wait_to_parse=True)
                    d.config = c
                    d.parse()
                ctx.hit('channel:config-not-from-text')
            elif channel == 'keyword-then-plain':
                # a keyword applies to the parse it is given to: the plain
                # parse that follows reads the configured defaults again
                odn = 's' if dns == 'n' else 'n'
                ode = 'e' if dew == 'w' else 'w'
                d = pytrs.PLSSDesc(txt, config=cfg(f"{dns},{dew}"))
                d.parse(default_ns=odn, default_ew=ode)
                if (t + r) % 2:
                    d.preprocess()
                d.parse()
                ctx.hit('channel:keyword-then-plain')
            elif channel == 'mixed':
                # one axis from the config string, the other as keyword
                d = pytrs.PLSSDesc(txt, config=cfg(dns), wait_to_parse=True)
                d.parse(default_ew=dew)
            elif channel == 'mixed2':
                d = pytrs.PLSSDesc(txt, config=cfg(dew), wait_to_parse=True)
                d.parse(default_ns=dns)
            else:
                # config says the opposite; keyword must win
                odn = 's' if dns == 'n' else 'n'
                ode = 'e' if dew == 'w' else 'w'
                d = pytrs.PLSSDesc(txt, config=cfg(f"{odn},{ode}"),
                                   wait_to_parse=True)
                d.parse(default_ns=dns, default_ew=dew)
            ctx.hit('boundary:PLSSDesc')
            if channel in ('config', 'master') and not case.get('hostile'):
                # the no-parse paths: a description told to wait, and the
                # value preprocess() returns
                w = pytrs.PLSSDesc(
                    txt, wait_to_parse=True,
                    config=(cfg(f"{dns},{dew}") if channel == 'config'
                            else cfg('') or None))
                ctx.hit('boundary:preprocess')
                for label, text_ in (('pp_desc of a waiting description',
                                      w.pp_desc),
                                     ('preprocess()', w.preprocess())):
                    if want + ' ' not in text_ + ' ':
                        ctx.violation(
                            'pp_desc', case,
                            f"{label}: {short(text_, 90)!r} does not show "
                            f"{want!r} (defaults {dns}{dew} via {channel})",
                            dedup=f"preprocess|{label[:3]}")
                        return
            got = [x.trs for x in d.tracts]
            if dn or de:
                ctx.hit('default-filled')
            if case.get('hostile'):
                ctx.hit('hostile-neighbour')
            if got != [trs]:
                ctx.violation(
                    'trs', case,
                    f"{txt!r} defaults {dns}{dew} via {channel}: tracts "
                    f"{got}, expected [{trs!r}] (pp_desc "
                    f"{short(d.pp_desc, 80)!r})",
                    dedup=f"{case['form']}|{dn}{de}|{case.get('hostile')}",
                    pp_desc=d.pp_desc)
                return
            if want + ' ' not in d.pp_desc + ' ':
                ctx.violation('pp_desc', case,
                              f"preprocessed text {short(d.pp_desc, 90)!r} "
                              f"does not show {want!r}", dedup=case['form'])
                return
            if case.get('hostile'):
                word = case['hostile'].split()[0]
                if word not in d.pp_desc:
                    ctx.violation(
                        'neighbour-word-damaged', case,
                        f"the word {word!r} after the Twp/Rge does not "
                        f"survive whole in {short(d.pp_desc, 90)!r}",
                        pp_desc=d.pp_desc)
                    return
            fixed = any('fixed_twprge' in w for w in d.w_flags)
            if fixed != (dn or de):
                ctx.violation(
                    'fixed_twprge-warning', case,
                    f"{txt!r}: a direction was missing: {dn or de}; "
                    f"fixed_twprge warning present: {fixed} "
                    f"(w_flags {d.w_flags})", dedup=f"{dn}{de}")
                return
            ft = pytrs.find_twprge(txt, preprocess=True, default_ns=dns,
                                   default_ew=dew)
            ctx.hit('boundary:find_twprge')
            if ft != [want]:
                ctx.violation('find_twprge', case,
                              f"find_twprge({txt!r}, preprocess=True, "
                              f"{dns},{dew}) == {ft}, expected [{want!r}]",
                              dedup=case['form'])
        finally:
            MC.default_ns, MC.default_ew = saved
    # MasterConfig restored => original behaviour (cheap spot check).
    if channel == 'master' and (dn or de):
        with ctx.guard(case):
            d0 = pytrs.PLSSDesc(txt)
            e0 = f"{t}{(saved[0] if dn else ns)}{r}{(saved[1] if de else ew)}14"
            if [x.trs for x in d0.tracts] != [e0]:
                ctx.violation('masterconfig-not-restored', case,
                              f"after restoring MasterConfig {txt!r} gives "
                              f"{[x.trs for x in d0.tracts]}, expected {e0}")


OCR_MAP = {'1': ['I', 'l'], '0': ['O'], '5': ['S']}


def check_ocr(rng, ctx, rep, pytrs):
    t = rng.choice([rng.randint(1, 9), rng.randint(10, 99),
                    rng.randint(100, 199)])
    r = rng.choice([rng.randint(1, 9), 2, rng.randint(10, 99),
                    rng.randint(100, 130)])
    ns, ew = rng.choice('ns'), rng.choice('ew')

    def corrupt(num):
        s = str(num)
        idx = [i for i, c in enumerate(s) if c in OCR_MAP]
        if not idx:
            return s, False
        i = rng.choice(idx)
        return s[:i] + rng.choice(OCR_MAP[s[i]]) + s[i + 1:], True
    ts, c1 = corrupt(t)
    rs, c2 = corrupt(r)
    nodigit = rng.random() < 0.25
    if nodigit:
        # every digit of both numbers misread, and no other digit anywhere
        # in the text
        pool = [n for n in list(range(1, 200))
                if all(c in OCR_MAP for c in str(n))]
        t, r = rng.choice(pool), rng.choice([n for n in pool if n != 2])
        ts = ''.join(rng.choice(OCR_MAP[c]) for c in str(t))
        rs = ''.join(rng.choice(OCR_MAP[c]) for c in str(r))
        c1 = c2 = True
    if not (c1 or c2):
        return
    if nodigit:
        ctx.hit('ocr:no-digit-left')
        txt = (f"T{ts}{ns.upper()}-R{rs}{ew.upper()}" if rng.random() < 0.5 else
               f"Township {ts} {'North' if ns == 'n' else 'South'}, Range {rs} "
               f"{'East' if ew == 'e' else 'West'}") + rng.choice(
                   ['', ' the north half', ', Section fourteen'])
        case = {'ocr': True, 'text': txt, 't': t, 'r': r, 'ns': ns, 'ew': ew}
        rep.set_case(case)
        ctx.case(txt, True, shape='ocr:no-digit', sample={'text': txt})
        with ctx.guard(case):
            want = f"T{t}{ns.upper()}-R{r}{ew.upper()}"
            ft = pytrs.find_twprge(txt, ocr_scrub=True)
            if ft != [want]:
                ctx.violation('ocr_scrub-find_twprge', case,
                              f"find_twprge({txt!r}, ocr_scrub=True) == {ft}, "
                              f"expected [{want!r}]", dedup='nodigit')
            d = pytrs.PLSSDesc(txt, config='ocr_scrub')
            got = [x.twprge for x in d.tracts]
            if got != [f"{t}{ns}{r}{ew}"]:
                ctx.violation('ocr_scrub', case,
                              f"{txt!r} with ocr_scrub gives Twp/Rge {got}, "
                              f"expected {[f'{t}{ns}{r}{ew}']} (pp "
                              f"{short(d.pp_desc, 60)!r})", dedup='nodigit')
        return
    if rng.random() < 0.2:
        # compact, nothing between township and range
        txt = f"T{ts}{ns.upper()}R{rs}{ew.upper()} Sec 14: NE/4"
    elif rng.random() < 0.7:
        txt = f"T{ts}{ns.upper()}-R{rs}{ew.upper()} Sec 14: NE/4"
    else:
        txt = (f"Township {ts} {'North' if ns == 'n' else 'South'}, Range {rs} "
               f"{'East' if ew == 'e' else 'West'}, Sec 14: NE/4")
    case = {'ocr': True, 'text': txt, 't': t, 'r': r, 'ns': ns, 'ew': ew}
    rep.set_case(case)
    ctx.case(txt, True, shape='ocr', sample={'text': txt})
    ctx.hit('ocr')
    with ctx.guard(case):
        want = f"T{t}{ns.upper()}-R{r}{ew.upper()}"
        # the plain search first, then the OCR one on the same text (a result
        # remembered from the first call must not come back)
        pytrs.find_twprge(txt, preprocess=True)
        ft = pytrs.find_twprge(txt, ocr_scrub=True)
        if ft != [want]:
            ctx.violation('ocr_scrub-find_twprge', case,
                          f"find_twprge({txt!r}, ocr_scrub=True) == {ft}, "
                          f"expected [{want!r}]")
        d = pytrs.PLSSDesc(txt, config='ocr_scrub')
        got = [x.trs for x in d.tracts]
        exp = [f"{t}{ns}{r}{ew}14"]
        if got != exp:
            ctx.violation('ocr_scrub', case,
                          f"{txt!r} with ocr_scrub gives {got}, expected "
                          f"{exp} (pp {short(d.pp_desc, 60)!r})")


class UnpackTwprgeBroken(Exception):
    pass


def _setup(ctx):
    import pytrs
    import warnings
    from pytrs.parser.unpack import unpackers as UP
    from ..monitors import core
    from ..monitors.core import Reporter
    warnings.simplefilter('ignore')
    rep = Reporter(ctx)
    orig = UP.unpack_twprge

    def explicit_direction_kept(twprge_mo, result):
        ctx.hit('contract:unpack_twprge')
        g = twprge_mo.groupdict()
        mo = __import__('re').fullmatch(
            r'T([0-9A-Za-z\]\|]{1,3})([NS])-R([0-9A-Za-z\]\|]{1,3})([EW])',
            result)
        if mo is None:
            rep.report('C08:unpack_twprge-contract',
                       f"unpack_twprge result {result!r} is not of the form "
                       f"T<num><N|S>-R<num><E|W>", dedup='form')
            return True
        if g.get('ns') and g['ns'][0].upper() != mo.group(2):
            rep.report('C08:unpack_twprge-contract',
                       f"explicit N/S {g['ns']!r} overridden: {result!r}",
                       dedup='ns')
        if g.get('ew') and g['ew'][0].upper() != mo.group(4):
            rep.report('C08:unpack_twprge-contract',
                       f"explicit E/W {g['ew']!r} overridden: {result!r}",
                       dedup='ew')
        return True

    checked = icontract.ensure(explicit_direction_kept,
                               error=UnpackTwprgeBroken)(orig)
    core.rebind_function(orig, checked)
    return pytrs, rep


def check_pair(rng, ctx, rep, pytrs):
    """Two Twp/Rge's in one description, one of them (or both, or none)
    written without a direction -- also the SAME Twp/Rge written once in full
    and once without direction: the fixed_twprge warning must be there
    exactly when a direction was missing."""
    t = rng.randint(1, 199)
    r = rng.choice([rng.randint(3, 9), rng.randint(10, 130)])
    ns, ew = rng.choice('ns'), rng.choice('ew')
    same = rng.random() < 0.5
    t2, r2 = (t, r) if same else (t + rng.randint(1, 5), r)
    dns, dew = (ns, ew) if same and rng.random() < 0.7 else \
        (rng.choice('ns'), rng.choice('ew'))
    drops = [rng.choice([(False, False), (True, False), (False, True),
                         (True, True)]) for _ in range(2)]
    forms_ = []
    for (tt, rr), (dn, de) in zip(((t, r), (t2, r2)), drops):
        fs = forms(tt, ns, rr, ew, dn, de)
        forms_.append(fs[rng.choice(sorted(fs))])
    txt = f"{forms_[0]} Sec 14: NE/4, {forms_[1]} Sec 15: NW/4"
    exp = []
    for (tt, rr), (dn, de), sec in zip(((t, r), (t2, r2)), drops, ('14', '15')):
        exp.append(f"{tt}{dns if dn else ns}{rr}{dew if de else ew}{sec}")
    missing = any(dn or de for dn, de in drops)
    case = {'pair': True, 'text': txt, 'defaults': dns + dew,
            'expected': exp, 'missing': missing}
    rep.set_case(case)
    ctx.case([txt, dns, dew], True, shape=f"pair|same={same}",
             sample={'text': txt, 'defaults': dns + dew, 'expected': exp})
    ctx.hit('pair')
    with ctx.guard(case):
        d = pytrs.PLSSDesc(txt, config=f"{dns},{dew}")
        got = [x.trs for x in d.tracts]
        if got != exp:
            ctx.violation('pair-trs', case,
                          f"{txt!r} defaults {dns}{dew}: {got}, expected {exp}"
                          f" (pp {short(d.pp_desc, 80)!r})", dedup=str(same))
            return
        fixed = any('fixed_twprge' in w for w in d.w_flags)
        if fixed != missing:
            ctx.violation(
                'fixed_twprge-warning', case,
                f"{txt!r} defaults {dns}{dew}: a direction was missing: "
                f"{missing}; fixed_twprge warning present: {fixed} (w_flags "
                f"{d.w_flags})", dedup=f"pair|{same}|{missing}")
        for k, tr_ in enumerate(d.tracts):
            if any('fixed_twprge' in w for w in tr_.w_flags) != missing:
                ctx.violation('fixed_twprge-warning-on-tract', case,
                              f"tract #{k} of {txt!r}: warning present "
                              f"{not missing} but expected {missing}",
                              dedup='tract')
                break


def gen_case(rng):
    t = rng.choice([rng.randint(1, 9), rng.randint(10, 99),
                    rng.randint(100, 999)])
    r = rng.choice([rng.randint(1, 9), rng.randint(10, 99),
                    rng.randint(100, 999)])
    ns, ew = rng.choice('ns'), rng.choice('ew')
    dn, de = rng.choice([(False, False), (True, False), (False, True),
                         (True, True)])
    fs = forms(t, ns, r, ew, dn, de)
    name = rng.choice(sorted(fs))
    layout = rng.choice(['TRS_desc', 'TRS_desc', 'desc_STR'])
    hostile = None
    tw = fs[name]
    if de and layout == 'TRS_desc' and rng.random() < 0.5 \
            and name in ('compact', 'words', 'dashed'):
        hostile = rng.choice(HOSTILE_WORDS)
        txt = f"{tw} {hostile}, Sec 14: NE/4"
    else:
        txt, _ = _embed(rng, tw, layout)
    return {'t': t, 'ns': ns, 'r': r, 'ew': ew, 'drop_ns': dn, 'drop_ew': de,
            'default_ns': rng.choice('ns'), 'default_ew': rng.choice('ew'),
            'form': name, 'channel': rng.choice(['config', 'keyword', 'master',
                                                 'keyword-over-config',
                                                 'mixed', 'mixed2',
                                                 'master-after-creation',
                                                 'config-object-vs-later-master',
                                                 'config-not-from-text',
                                                 'keyword-then-plain']),
            'text': txt, 'hostile': hostile,
            'segment': rng.random() < 0.25 and not hostile,
            'ocr_on': rng.random() < 0.2}


def run_shard(shard, ctx):
    pytrs, rep = _setup(ctx)
    if shard['family'] == 'grid':
        k = 0
        for t in range(1, 200):
            for r in range(1, 131):
                k += 1
                if k % shard['parts'] != shard['part']:
                    continue
                ns, ew = 'ns'[k % 2], 'ew'[(k // 2) % 2]
                tw = forms(t, ns, r, ew)['compact']
                check({'t': t, 'ns': ns, 'r': r, 'ew': ew, 'drop_ns': False,
                       'drop_ew': False, 'default_ns': 'ns'[(k // 4) % 2],
                       'default_ew': 'ew'[(k // 8) % 2], 'form': 'compact',
                       'channel': 'config',
                       'text': f"{tw} Sec 14: NE/4", 'hostile': None},
                      ctx, rep, pytrs)
        return
    rng = ctx.rng('random', shard['i'])
    for i in range(shard['n']):
        check(gen_case(rng), ctx, rep, pytrs)
        if i % 6 == 0:
            check_ocr(rng, ctx, rep, pytrs)
        if i % 4 == 0:
            check_pair(rng, ctx, rep, pytrs)


def replay(case, ctx):
    pytrs, rep = _setup(ctx)
    if case.get('ocr') or case.get('pair'):
        rng = ctx.rng('random', 0)
        for _ in range(300):
            check_ocr(rng, ctx, rep, pytrs)
            check_pair(rng, ctx, rep, pytrs)
        return
    check(case, ctx, rep, pytrs)


def classify(v):
    """
    D22: a direction-less range number followed by an ordinary word whose
    first letter is 'e' or 'w' takes that letter for its direction: the
    preprocessed text shows 'R<r><E|W> <rest of the word>'.
    """
    case = v.get('case') or {}
    word = (case.get('hostile') or '').split()
    if not word or not case.get('drop_ew'):
        return None
    import re
    first = word[0]
    pp = v.get('pp_desc') or ''
    eaten = re.match(r'(w[est]{0,3}|e[ast]{0,3})', first, re.I).group(0)
    if f"R{case['r']}{first[0].upper()} {first[len(eaten):]}" in pp:
        return 'directionless-range-eats-next-word-initial'
    return None


MANIFEST_TEXT = (
    "Held on every execution observed: 18k (quick) / ~300k (thorough) Twp/Rge "
    "renderings x missing-direction patterns x four default channels "
    "(config, keyword, MasterConfig, keyword over contrary config), hostile "
    "neighbours and OCR look-alikes, judged against the expected natural "
    "form; an icontract post-condition on unpack_twprge asserts on every "
    "call that explicit directions are kept. Exploration.")
LEVEL_NOTE = ("Trusts the expected-form model in check() and the spelling "
              "table forms().")
TECHNIQUE = ("reference-model monitor at the boundary + runtime contract "
             "(icontract ensure on unpack_twprge) over spelling x default-"
             "channel workloads")
