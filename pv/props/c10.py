"""C10 -- flags are well-typed, shared with tracts, raised when warranted."""

import re

from ..common import CaseTimeout, cpu_timebox, short
from ..gen import configs as CF
from ..gen import plss as G
from ..monitors.flags_invariant import flags_problem
from . import c03

PROP = 'C10'
RULE = (
    "(A) typing/sharing: the C03 text x configuration space; for PLSSDesc "
    "and every tract: w_flags/e_flags are lists of str paired one-to-one "
    "with (flag, context) tuples of str, every description flag is on each "
    "tract, desc_is_flawed == bool(e_flags), an error Twp/Rge/Sec on any "
    "tract implies an error flag. The typing predicate also runs as an "
    "icontract class invariant on TwpRgeFinder, SecFinder, ChunkParser, "
    "PLSSParser, TractParser, SecUnpacker, LotUnpacker. (B) triggers: C01 "
    "descriptions with one trigger phrase per kind, or two different wordings "
    "of one kind 10-70 characters apart (well, depth, "
    "including, less_except, insofar) inserted atomically at a word boundary "
    "outside every Twp/Rge and section spelling, under modes {default, "
    "segment, sec_within, both, sec_colon_cautious, sec_colon_required, "
    "copy_all, forced layout}; the warning of that kind must be present with "
    "the phrase's key word in its context. Non-trivial: (A) >= 1 flag on the "
    "description; (B) every case. Distinct by (text, settings)."
)
ASSUMPTIONS = [
    "A second wording of a kind may legitimately be folded into the first "
    "one's context window: what is demanded is that its key word appears in "
    "SOME context of that kind. Kinds already present in the generated "
    "blocks are not inserted again.",
    "Flags are compared by presence / as multisets, never by order.",
]
MIN_NONTRIVIAL = {'quick': 5000, 'thorough': 120000}
REQUIRED_MONITORS = ['boundary:typing', 'boundary:sharing', 'trigger',
                     'trigger:second-of-a-kind',
                     'invariant:SecFinder', 'invariant:TwpRgeFinder',
                     'invariant:ChunkParser', 'invariant:PLSSParser',
                     'invariant:TractParser', 'invariant:SecUnpacker',
                     'invariant:LotUnpacker']

TRIGGERS = {
    'well': [('the Johnston wellbore', 'wellbore'),
             ('the Smith #1 well', 'well'),
             ('all wells located thereon', 'wells'),
             ('the existing wellbores', 'wellbores')],
    'depth': [('from the surface to the base of the Bakken', 'surface'),
              ('all depths below 5000 feet', 'depths'),
              ('the Three Forks formation', 'formation'),
              ('down to 9000 feet', 'down')],
    'including': [('including all accretions', 'including'),
                  ('incl. the riparian rights', 'incl')],
    'less_except': [('less and except the railroad', 'less and except'),
                    ('except the east ten feet', 'except'),
                    ('limited to the interval', 'limit'),
                    ('less the road', 'less')],
    'insofar': [('insofar as it lies there', 'insofar'),
                ('only in so far as covered', 'in so far')],
}
FILLER = ['parcel', 'homestead', 'meadow', 'orchard', 'pasture', 'and', 'the',
          'old', 'upper', 'a', 'of', 'mill', 'yard', 'x']
# The harness' own detectors for kinds already present in a text.
PRESENT = {
    'well': re.compile(r'\bwell', re.I),
    'depth': re.compile(r'depth|surf|down|form|\btop\b|base', re.I),
    'including': re.compile(r'incl', re.I),
    'less_except': re.compile(r'less|except|limit', re.I),
    'insofar': re.compile(r'in\s*so\s*far', re.I),
}
MODES = ['', 'segment', 'sec_within', 'segment,sec_within',
         'sec_colon_cautious', 'sec_colon_required', 'copy_all', 'FORCED']


def plan(tier, seed):
    if tier == 'quick':
        return ([{'family': 'typing', 'n': 1200, 'i': i} for i in range(8)]
                + [{'family': 'trigger', 'n': 250, 'i': i} for i in range(8)])
    return ([{'family': 'typing', 'n': 9000, 'i': i} for i in range(24)]
            + [{'family': 'trigger', 'n': 2500, 'i': i} for i in range(24)])


# -- (A) typing / sharing ---------------------------------------------------

def holder_problem(obj, name):
    for a, b in (('w_flags', 'w_flag_lines'), ('e_flags', 'e_flag_lines')):
        why = flags_problem(getattr(obj, a), getattr(obj, b), f"{name}.{a}")
        if why:
            return why
    # The combined lists are paired position by position as well.
    why = flags_problem(obj.flags, obj.flag_lines, f"{name}.flags")
    if why:
        return why
    if sorted(obj.flags) != sorted(obj.w_flags + obj.e_flags):
        return (f"{name}: .flags {obj.flags} is not the warning and error "
                f"flags together")
    return None


def _multiset_missing(sub, sup):
    sup = list(sup)
    for x in sub:
        if x in sup:
            sup.remove(x)
        else:
            return x
    return None


def judge_description(d, tracts, case, ctx, label):
    ctx.hit('boundary:typing')
    why = holder_problem(d, 'PLSSDesc')
    if why:
        ctx.violation('ill-typed-flags', case, f"{label}: {why}",
                      dedup=why[:50])
        return
    for k, t in enumerate(tracts):
        why = holder_problem(t, f'tract#{k}')
        if why:
            ctx.violation('ill-typed-flags', case, f"{label}: {why}",
                          dedup=why[:50])
            return
    if d.desc_is_flawed != bool(d.e_flags):
        ctx.violation('flawed-mismatch', case,
                      f"{label}: desc_is_flawed={d.desc_is_flawed} but "
                      f"e_flags={d.e_flags}")
    if any(t.trs_is_error() for t in tracts) and not d.e_flags:
        ctx.violation('error-trs-without-error-flag', case,
                      f"{label}: tracts {[t.trs for t in tracts]} include an "
                      f"error Twp/Rge/Sec but e_flags is empty")


def judge_sharing(d, tracts, case, ctx, label):
    ctx.hit('boundary:sharing')
    for k, t in enumerate(tracts):
        for a in ('w_flags', 'e_flags', 'w_flag_lines', 'e_flag_lines'):
            try:
                miss = _multiset_missing(getattr(d, a), getattr(t, a))
            except TypeError:
                miss = None
            if miss is not None:
                ctx.violation(
                    'flag-not-shared', case,
                    f"{label}: {a} entry {miss!r} of the description is "
                    f"missing on tract #{k} ({t.trs}); tract has "
                    f"{getattr(t, a)}", dedup=f"{a}:{str(miss)[:20]}")
                return


def run_typing(case, ctx, rep, pytrs):
    text, st, kw = case['text'], case['settings'], case['keywords']
    rep.set_case(case)
    try:
        with cpu_timebox(20):
            with ctx.guard(case):
                cfg = case['cfgtext'] if case['channel'] != 'none' else None
                if case['channel'] == 'object':
                    cfg = pytrs.Config(cfg)
                d = pytrs.PLSSDesc(text, config=cfg,
                                   layout=case['init_layout'],
                                   parse_qq=case['init_parse_qq'])
                if st.get('wait_to_parse') and cfg is not None:
                    d.parse()
                ctx.case([text, case['cfgtext'], case['channel'],
                          case['init_layout']], bool(d.flags),
                         shape='typing|' + case['family'].split(':')[0],
                         sample={'text': short(text, 140),
                                 'config': case['cfgtext'],
                                 'w_flags': d.w_flags[:4],
                                 'e_flags': d.e_flags[:4]})
                judge_description(d, d.tracts, case, ctx, 'init')
                judge_sharing(d, d.tracts, case, ctx, 'init')
                # A later tract-level parse may add flags but not lose any.
                d.parse_tracts(**CF.tract_parse_kwargs(kw))
                judge_description(d, d.tracts, case, ctx, 'after parse_tracts')
                judge_sharing(d, d.tracts, case, ctx, 'after parse_tracts')
                d.parse_tracts()
                d.parse_tracts(**CF.tract_parse_kwargs(kw))
                judge_description(d, d.tracts, case, ctx,
                                  'after 3 x parse_tracts')
                judge_sharing(d, d.tracts, case, ctx, 'after 3 x parse_tracts')
                # A parse that is not committed leaves the flags in place.
                before = (sorted(map(str, d.w_flags)), sorted(map(str, d.e_flags)))
                d.parse(commit=False)
                after = (sorted(map(str, d.w_flags)), sorted(map(str, d.e_flags)))
                if before != after:
                    ctx.violation(
                        'flags-changed-by-uncommitted-parse', case,
                        f"parse(commit=False) changed the description's "
                        f"flags from {before} to {after}", dedup='nc')
                judge_description(d, d.tracts, case, ctx,
                                  'after parse(commit=False)')
                # ... and still 'flawed exactly when it has an error flag'
                # once tracts have been filtered out of the description.
                d.filter_errors(drop=True)
                judge_description(d, d.tracts, case, ctx,
                                  'after filter_errors(drop=True)')
                d.filter(lambda t: True, drop=True)
                judge_description(d, d.tracts, case, ctx,
                                  'after every tract was dropped')
                # Standalone Tract.
                t = pytrs.Tract(text, config=cfg, parse_qq=True)
                why = holder_problem(t, 'Tract')
                if why:
                    ctx.violation('ill-typed-flags', case, why, dedup=why[:50])
    except CaseTimeout:
        ctx.discard('slow')


# -- (B) trigger phrases ----------------------------------------------------

def insertion_points(text, spans):
    """Word boundaries (index of a blank) outside Twp/Rge and section spans,
    plus text start and end."""
    blocked = [(a, b) for a, b, k in spans if k in ('twprge', 'sec')]
    pts = [0, len(text)]
    for mo in re.finditer(r'[ \n]', text):
        p = mo.start()
        if any(a <= p < b for a, b in blocked):
            continue
        pts.append(p)
    return pts


# (no wording of any kind inside the glued tokens themselves)
GLUED_RIGHT = ['-per-exhibit-A-attached-hereto-and-made-a-part-hereof-by-reference',
               '(see-exhibit-A)(see-exhibit-B)(see-exhibit-C)(see-exhibit-D)']
GLUED_LEFT = ['(per-exhibit-A-attached)', '***NOTE***']


def gen_trigger_case(rng):
    base = G.gen_case(rng, max_groups=2, max_secs=2,
                      block_kinds=('aliquot', 'aliquots', 'lots',
                                   'lots+aliquot', 'lotdiv', 'prose'))
    text = base['text']
    kinds = [k for k in TRIGGERS if not PRESENT[k].search(text)]
    rng.shuffle(kinds)
    kinds = kinds[:rng.randint(1, min(3, len(kinds)))] if kinds else []
    pts = insertion_points(text, base['spans'])
    chosen = sorted(rng.sample(pts, min(len(kinds), len(pts))), reverse=True)
    inserted = []
    out = text
    pair_kind = kinds[0] if kinds and rng.random() < 0.3 else None
    for kind, pos in zip(kinds, chosen):
        phrase, key = rng.choice(TRIGGERS[kind])
        r_ = rng.random()
        if r_ < 0.12:
            phrase = phrase.upper()         # 'SURFACE TO THE BASE OF'
        elif r_ < 0.24:
            phrase = phrase.title()
        r2 = rng.random()
        if r2 < 0.1:
            # a long blank-free token glued to the wording (no blank to
            # cut the context window at): the key word is still shown
            phrase += rng.choice(GLUED_RIGHT)
        elif r2 < 0.18:
            phrase = rng.choice(GLUED_LEFT) + phrase
        else:
            # whatever ordinary words follow the wording
            phrase += rng.choice(['', '', '', ' as drilled',
                                  ' as shown on the plat', ' only',
                                  ' thereof', ' if any', ' as to all'])
        second = None
        if kind == pair_kind:
            # Two wordings of the same kind, 10-70 characters of ordinary
            # words apart: each must show up in a context of that kind.
            second = rng.choice([x for x in TRIGGERS[kind] if x[1] != key])
            gap, want = '', rng.randint(10, 70)
            while len(gap) < want:
                gap += rng.choice(FILLER) + ' '
            gap = gap[:want].strip() or 'x'
            phrase = f"{phrase} {gap} {second[0]}"
        # Atomic insertion at a position computed on the ORIGINAL text
        # (descending order keeps earlier positions valid).
        if pos == 0:
            piece = phrase + ' '
        elif pos == len(text):
            piece = ' ' + phrase
        else:
            piece = ' ' + phrase
        out = out[:pos] + piece + out[pos:]
        where = 'start' if pos == 0 else 'end' if pos == len(text) else 'inner'
        inserted.append({'kind': kind, 'key': key, 'phrase': phrase,
                         'pos': pos, 'where': where})
        if second:
            inserted.append({'kind': kind, 'key': second[1], 'phrase': phrase,
                             'pos': pos, 'where': where, 'second': True})
    mode = rng.choice(MODES)
    if mode == 'FORCED':
        mode = base['layout']
    fallback = None
    r = rng.random()
    if r < 0.12 and base['layout'] in ('TRS_desc', 'S_desc_TR'):
        # every colon removed + colon required: the chunk falls back to
        # copy_all; the wording must still be flagged.
        out = out.replace(':', '')
        mode = rng.choice(['sec_colon_required', 'sec_colon_required,segment',
                           'sec_colon_required,sec_within'])
        fallback = 'colon-required'
    elif r < 0.2:
        # a forced layout that does not fit the text
        others = [x for x in G.LAYOUTS if x != base['layout']]
        mode = rng.choice(others)
        fallback = 'misfit-layout'
    return {'text': out, 'base': text, 'layout': base['layout'],
            'inserted': inserted, 'mode': mode, 'fallback': fallback}


def run_trigger(case, ctx, rep, pytrs, rec):
    rep.set_case(case)
    rec.reset()
    ctx.case([case['text'], case['mode']], True,
             shape=f"trigger|{case['mode'] or 'default'}|{case['layout']}"
                   f"{'|' + case['fallback'] if case.get('fallback') else ''}",
             sample={'text': short(case['text'], 200), 'mode': case['mode'],
                     'inserted': [(i['kind'], i['phrase']) for i in case['inserted']]})
    with ctx.guard(case):
        d = pytrs.PLSSDesc(case['text'], config=case['mode'] or None)
        judge_description(d, d.tracts, case, ctx, 'trigger')
        judge_sharing(d, d.tracts, case, ctx, 'trigger')
        seg = rec.of('segment')
        unused_txt = ' '.join(u[1] for e in seg for u in e['unused_blocks'])
        for ins in case['inserted']:
            ctx.hit('trigger')
            if ins.get('second'):
                ctx.hit('trigger:second-of-a-kind')
            kind, key = ins['kind'], ins['key']
            lines = [c for f, c in d.w_flag_lines if f == kind]
            ok = kind in d.w_flags and any(key.lower() in c.lower()
                                           for c in lines)
            if ok:
                continue
            why = ('no-warning' if kind not in d.w_flags
                   else 'context-lacks-key-word')
            ctx.violation(
                f'trigger-{why}', case,
                f"phrase {ins['phrase']!r} ({kind}) at {ins['where']} under "
                f"mode {case['mode']!r}: w_flags={d.w_flags}, contexts of "
                f"that kind={lines}",
                dedup=f"{kind}|{case['mode']}|{ins['where']}",
                phrase_in_unused_blocks=ins['phrase'] in unused_txt,
                segment_on='segment' in case['mode'], kind_missing=kind)


def _setup(ctx):
    import pytrs
    import warnings
    from ..monitors.core import Reporter
    from ..monitors import flags_invariant, plss_hooks
    warnings.simplefilter('ignore')
    rep = Reporter(ctx)
    flags_invariant.install(ctx, rep)
    rec = plss_hooks.install(ctx, scrubbers=False)
    return pytrs, rep, rec


def run_shard(shard, ctx):
    pytrs, rep, rec = _setup(ctx)
    rng = ctx.rng(shard['family'], shard['i'])
    for _ in range(shard['n']):
        if shard['family'] == 'typing':
            run_typing(c03.gen_case(rng), ctx, rep, pytrs)
        else:
            run_trigger(gen_trigger_case(rng), ctx, rep, pytrs, rec)


def replay(case, ctx):
    pytrs, rep, rec = _setup(ctx)
    if 'inserted' in case:
        run_trigger(case, ctx, rep, pytrs, rec)
    else:
        run_typing(case, ctx, rep, pytrs)


def classify(v):
    """D19: with `segment` on, a trigger phrase that lies in text the chunker
    left outside every chunk (PLSSChunker.unused_blocks) raises no warning."""
    if v['kind'].startswith('trigger-no-warning') and v.get('segment_on') \
            and v.get('phrase_in_unused_blocks'):
        return 'segment-trigger-in-unused-block'
    return None


MANIFEST_TEXT = (
    "Held on every execution observed: flag typing/pairing checked by "
    "icontract class invariants on the seven classes that create flags and "
    "at the API boundary over the C03 hostile space; flag sharing, "
    "flawed<=>error-flag and error-TRS=>error-flag on every description; "
    "trigger phrases inserted at structural positions under eight parse "
    "modes. Exploration.")
LEVEL_NOTE = ("Trusts the trigger table (phrase -> kind, key word) and that "
              "one phrase per kind is inserted outside Twp/Rge and section "
              "spellings.")
TECHNIQUE = ("runtime class invariants (icontract.invariant on flag-creating "
             "classes) + boundary predicates + trigger-phrase injection "
             "workload")
