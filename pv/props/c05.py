"""C05 -- elided lists of sections and lots expand to the numbers they denote."""

import icontract

from ..common import short
from ..oracles import elided as E

PROP = 'C05'
RULE = (
    "Lists of 1-6 items (single number | ascending range | descending range, "
    "never a-a) over sections 1-99 / lots 1-999, rendered with every "
    "connective spelling ('-', ' - ', 'through', 'thru', 'to', 'and', '&', "
    "',', ';', ', and'), keyword singular/plural/abbreviated ('Section', "
    "'Sec', 'Sec.', 'Sect', 'Sect.', '§'; 'Lot', 'L', 'Lt', 'L.'), keyword "
    "repeated before an item and after a 'through', lots with acreages. "
    "Judged: find_sec(text), the sections and shared description of "
    "PLSSDesc('T.. <list>: X'), Tract(list).lots / .ilots, and the "
    "non-sequential warning <=> some range is descending; all against the "
    "inclusive-range expansion model (pv/oracles/elided.py). The same model "
    "runs as an icontract post-condition on SecUnpacker.unpack_sections and "
    "LotUnpacker.unpack_lots for every list text any workload unpacks (texts "
    "the harness' own tokenizer cannot read unambiguously are counted and "
    "skipped). Thorough adds every (a, b) pair for a single range, both "
    "kinds. Non-trivial: >= 2 items with at least one range. Distinct by "
    "rendered text."
)
ASSUMPTIONS = [
    "Three-digit 'sections' and ranges a-a are not judged; only the presence "
    "of the non-sequential warning is checked (substring 'nonsequential').",
]
MIN_NONTRIVIAL = {'quick': 8000, 'thorough': 200000}
REQUIRED_MONITORS = ['boundary:find_sec', 'boundary:PLSSDesc',
                     'boundary:Tract.lots', 'contract:unpack_sections',
                     'contract:unpack_lots', 'boundary:PLSSDesc:colon-required',
                     'boundary:PLSSDesc:segment',
                     'boundary:PLSSDesc:list-ends-text',
                     'boundary:no-colon-block', 'lot-warning-after-what-if']
EXHAUSTIVE_SUBSPACES = {
    'thorough': ["every (a, b), a != b, 1..99 as a single section range",
                 "every (a, b), a != b, 1..150 as a single lot range"],
}

SEC_WORDS = ['Section', 'Sec', 'Sec.', 'Sect', 'Sect.', '§']
LOT_WORDS = ['Lot', 'L', 'Lt', 'L.', 'Lt.']
THRU = [' - ', '-', ' through ', ' thru ', ' to ', ' – ', '—']
AND_LAST = [', ', ' and ', ' & ', ', and ', '; ']
AND_MID = [', ', ', ', '; ']


def plan(tier, seed):
    if tier == 'quick':
        return ([{'family': 'sec', 'n': 1500, 'i': i} for i in range(5)]
                + [{'family': 'lot', 'n': 2500, 'i': i} for i in range(5)])
    return ([{'family': 'sec', 'n': 12000, 'i': i} for i in range(12)]
            + [{'family': 'lot', 'n': 20000, 'i': i} for i in range(12)]
            + [{'family': 'pairs-sec'}, {'family': 'pairs-lot'}])


def gen_items(rng, maxn, kmax=6):
    items = []
    if rng.random() < 0.02:
        kmax = rng.choice([30, 66, 80])         # a very long list, rarely
    for _ in range(rng.randint(max(1, kmax - 6), kmax) if kmax > 6
                   else rng.randint(1, kmax)):
        k = rng.choice(['s', 's', 'a', 'd'])
        if k == 's':
            items.append(rng.randint(1, maxn))
        elif k == 'a':
            a = rng.randint(1, maxn - 1)
            items.append((a, rng.randint(a + 1, min(maxn, a + 6))))
        else:
            a = rng.randint(2, maxn)
            items.append((a, rng.randint(max(1, a - 6), a - 1)))
    return items


def _repeated(rng, words):
    """The keyword written once more inside the list, now and then in the
    plural ('Sections 1 - 3 and Secs. 5 - 7'); the plural of an abbreviated
    section word keeps its period."""
    w = rng.choice(words)
    if rng.random() < 0.4 and w != '§':
        if not w.endswith('.'):
            w += 's'
        elif words is SEC_WORDS:
            w = w[:-1] + 's.'
    return w


def render(rng, items, words, acreage=False):
    w = rng.choice(words)
    multi = len(items) > 1 or isinstance(items[0], tuple)
    plural = (multi and rng.random() < 0.6 and not w.endswith('.')
              and w != '§')
    s = w + ('s' if plural else '')
    if (multi and words is SEC_WORDS and w in ('Sec.', 'Sect.')
            and rng.random() < 0.5):
        s = w[:-1] + 's.'
    s += '' if (w == '§' and rng.random() < 0.5) else ' '
    parts = []
    for i, it in enumerate(items):
        if isinstance(it, tuple):
            j = rng.choice(THRU)
            r = rng.random()
            if r < 0.06:
                j = j.upper()                   # ' THROUGH ', ' TO '
            elif r < 0.12:
                j = j.title()                   # ' Thru '
            elif r < 0.20:
                # the list wraps onto the next line right after the
                # connective: '1-\n3', '1 through\n3'
                j = j.rstrip(' ') + '\n'
            right = str(it[1])
            if rng.random() < 0.2:
                # keyword repeated after the 'through'
                if j.strip() and j == j.strip():
                    j = f" {j} "
                right = f"{_repeated(rng, words)} {right}"
            p = f"{it[0]}{j}{right}"
        else:
            p = str(it)
            if acreage and rng.random() < 0.3:
                ac = f"{rng.randint(1, 60)}.{rng.randint(0, 99):02d}"
                p += rng.choice([f"({ac})", f" ({ac})", f" [{ac}]"])
        if i > 0 and rng.random() < 0.25:
            p = f"{_repeated(rng, words)} {p}"    # repeated keyword
        parts.append(p)
    out = parts[0]
    for i, p in enumerate(parts[1:], 1):
        last = i == len(parts) - 1
        out += (rng.choice(AND_LAST) if last else rng.choice(AND_MID)) + p
    text = s + out
    if rng.random() < 0.05:
        text = text.upper()                     # 'SECTIONS 3 THROUGH 6'
    return text


def check_sec(items, txt, ctx, rep, pytrs):
    exp, desc = E.expand(items)
    e = [f"{n:02d}" for n in exp]
    case = {'kind': 'sec', 'items': [list(i) if isinstance(i, tuple) else i
                                     for i in items], 'text': txt}
    rep.set_case(case)
    nontrivial = len(items) >= 2 and any(isinstance(i, tuple) for i in items)
    ctx.case(txt, nontrivial, shape=f"sec|items={len(items)}",
             sample={'text': txt, 'expected': e})
    with ctx.guard(case):
        got = pytrs.find_sec(txt)
        ctx.hit('boundary:find_sec')
        if got != e:
            ctx.violation('find_sec', case,
                          f"find_sec({txt!r}) == {got}, expected {e}",
                          dedup='find_sec')
            return
        # the list belongs to the caller: changing it changes nothing
        got.reverse()
        got.append('99')
        again = pytrs.find_sec(txt)
        if again != e:
            ctx.violation('find_sec', case,
                          f"find_sec({txt!r}) gives {again} after the list it "
                          f"returned before was modified by the caller, "
                          f"expected {e}", dedup='find_sec-again')
            return
        full = f"T154N-R97W {txt}: NE/4"
        d = pytrs.PLSSDesc(full)
        ctx.hit('boundary:PLSSDesc')
        got2 = [t.sec for t in d.tracts]
        if got2 != e:
            ctx.violation('tract-sections', case,
                          f"PLSSDesc({full!r}) sections {got2}, expected {e}",
                          dedup='plss')
            return
        trs = [t.trs for t in d.tracts]
        if trs != [f"154n97w{x}" for x in e]:
            ctx.violation('tract-trs', case, f"trs {trs}")
        descs = {t.desc for t in d.tracts}
        if descs != {'NE/4'}:
            ctx.violation('shared-description', case,
                          f"tracts of one block carry descriptions {descs}")
        ns = any('nonsequential' in f for f in d.w_flags)
        if ns != desc:
            ctx.violation('nonsequential-flag', case,
                          f"descending range present={desc} but "
                          f"non-sequential warning present={ns} "
                          f"(w_flags {d.w_flags})", dedup=str(desc))
        # With its colon, under sec_colon_required: the colon is there, so
        # the mode changes nothing.
        third = len(txt) % 3 == 0
        if third:
            ctx.hit('boundary:PLSSDesc:colon-required')
        dr = pytrs.PLSSDesc(full, config='sec_colon_required') if third else d
        if [t.sec for t in dr.tracts] != e:
            ctx.violation('tract-sections', case,
                          f"PLSSDesc({full!r}, config='sec_colon_required') "
                          f"sections {[t.sec for t in dr.tracts]}, expected "
                          f"{e}", dedup='plss-required')
            return
        # The list behind its block (Twp/Rge - desc - Sec), read chunk by
        # chunk as well.
        if third:
            ctx.hit('boundary:PLSSDesc:segment')
        for full5, lead in ((f"T154N-R97W NE/4 of {txt}", []),
                            (f"T155N-R98W NE/4 of Sec 1, T154N-R97W NE/4 of "
                             f"{txt}", ['155n98w01'])) if third else ():
            for cfg5 in ('', 'segment'):
                d5 = pytrs.PLSSDesc(full5, config=cfg5 or None)
                if [t.trs for t in d5.tracts] != \
                        lead + [f"154n97w{x}" for x in e]:
                    ctx.violation(
                        'tract-sections-TR_desc_S', case,
                        f"PLSSDesc({full5!r}, config={cfg5!r}) gives "
                        f"{[t.trs for t in d5.tracts][:8]}, expected sections "
                        f"{e} of 154n97w", dedup=f"trdescs|{cfg5}|{len(lead)}")
                    return
        # Without a colon, under sec_colon_cautious (second pass).
        # (the block right behind the last number starts with N../S.. in
        # three cases of five: a direction letter there is not a Twp's)
        blk = ('NE/4', 'S/2', 'N/2NE/4', 'South Half', 'N½')[len(txt) % 5]
        full3 = f"T154N-R97W {txt} {blk}"
        if not txt.rstrip().endswith(':'):
            ctx.hit('boundary:no-colon-block')
            got6 = pytrs.find_sec(f"{txt} {blk}")
            d6 = pytrs.PLSSDesc(full3)
            if got6 != e or [t.sec for t in d6.tracts] != e or \
                    {t.desc for t in d6.tracts} != {blk}:
                ctx.violation(
                    'no-colon-block', case,
                    f"find_sec({txt + ' ' + blk!r}) == {got6}; "
                    f"PLSSDesc({full3!r}) gives "
                    f"{[(t.sec, t.desc) for t in d6.tracts][:8]}; expected "
                    f"sections {e}, each described {blk!r}",
                    dedup=f"nocolon|{blk}")
                return
            d3 = pytrs.PLSSDesc(full3, config='sec_colon_cautious')
            got4 = [t.sec for t in d3.tracts]
            ns3 = any('nonsequential' in f for f in d3.w_flags)
            if got4 != e or ns3 != desc:
                ctx.violation(
                    'cautious-second-pass', case,
                    f"PLSSDesc({full3!r}, config='sec_colon_cautious') "
                    f"sections {got4} (expected {e}), non-sequential warning "
                    f"{ns3} (descending range present: {desc}); w_flags "
                    f"{d3.w_flags}", dedup=f"{got4 != e}")
        # The list ends the description (whole sections, nothing said
        # about them), alone and as the last block of two.
        if len(txt) % 3 == 1:
            ctx.hit('boundary:PLSSDesc:list-ends-text')
        for full4, lead in ((f"T154N-R97W {txt}", []),
                            (f"T155N-R98W Sec 1: NE/4, T154N-R97W {txt}",
                             ['155n98w01'])) if len(txt) % 3 == 1 else ():
            d4 = pytrs.PLSSDesc(full4)
            got5 = [t.trs for t in d4.tracts]
            if got5 != lead + [f"154n97w{x}" for x in e] or \
                    any(t.desc for t in d4.tracts[len(lead):]):
                ctx.violation(
                    'tract-sections-list-ends-text', case,
                    f"PLSSDesc({full4!r}) gives "
                    f"{[(t.trs, t.desc) for t in d4.tracts][:8]}, expected "
                    f"sections {e} with an empty description (e_flags "
                    f"{d4.e_flags})", dedup=f"ends|{len(lead)}")
                break
        # The same list in the desc-Sec-Twp/Rge layout.
        full2 = f"NE/4 of {txt}, T154N-R97W"
        d2 = pytrs.PLSSDesc(full2)
        got3 = [t.sec for t in d2.tracts]
        if got3 != e or {t.desc for t in d2.tracts} != {'NE/4'}:
            ctx.violation('tract-sections-desc_STR', case,
                          f"PLSSDesc({full2!r}) sections {got3} descs "
                          f"{sorted({t.desc for t in d2.tracts})}, expected "
                          f"{e} all 'NE/4'", dedup='plss2')


def check_lot(items, txt, ctx, rep, pytrs):
    exp, desc = E.expand(items)
    e = [f"L{n}" for n in exp]
    case = {'kind': 'lot', 'items': [list(i) if isinstance(i, tuple) else i
                                     for i in items], 'text': txt}
    rep.set_case(case)
    nontrivial = len(items) >= 2 and any(isinstance(i, tuple) for i in items)
    ctx.case(txt, nontrivial, shape=f"lot|items={len(items)}",
             sample={'text': txt, 'expected': e})
    with ctx.guard(case):
        t = pytrs.Tract(txt, parse_qq=True)
        ctx.hit('boundary:Tract.lots')
        # A Tract created unparsed, looked at, then parsed.
        u = pytrs.Tract(txt)
        before = (list(u.lots), list(u.ilots), list(u.lots_qqs))
        u.parse()
        if before != ([], [], []) or u.lots != e or u.ilots != exp:
            ctx.violation('lots-after-late-parse', case,
                          f"unparsed Tract showed {before}; after parse() "
                          f"lots {u.lots} ilots {u.ilots}, expected {e} / "
                          f"{exp}", dedup='late')
        if t.lots != e:
            ctx.violation('lots', case,
                          f"Tract({txt!r}).lots == {t.lots}, expected {e}",
                          dedup='lots')
            return
        if t.ilots != exp:
            ctx.violation('ilots', case, f"ilots {t.ilots}, expected {exp}")
        if t.lots_qqs != t.lots + t.qqs:
            ctx.violation('lots_qqs', case, "lots_qqs != lots + qqs")
        whatif = len(txt) % 2 == 1
        if whatif:
            # a what-if parse in between: lots and warning stay as committed
            ctx.hit('lot-warning-after-what-if')
            t.parse(commit=False)
        ns = any('nonsequential' in f for f in t.w_flags)
        if ns != desc or t.lots != e:
            ctx.violation('nonsequential-flag', case,
                          f"descending range present={desc} but "
                          f"non-sequential warning present={ns} "
                          f"(w_flags {t.w_flags}, lots {t.lots}; what-if "
                          f"parse in between: {whatif})",
                          dedup=f"{desc}|{whatif}")
        # The same lot list inside a full description.
        d = pytrs.PLSSDesc(f"T154N-R97W Sec 14: {txt}", parse_qq=True)
        if whatif and len(d.tracts) == 1:
            d.tracts[0].parse(commit=False)
        if len(d.tracts) != 1 or d.tracts[0].lots != e:
            ctx.violation('lots-in-description', case,
                          f"PLSSDesc('T154N-R97W Sec 14: {txt}') lots "
                          f"{[x.lots for x in d.tracts]}, expected {e}",
                          dedup='lots2')
        elif any('nonsequential' in f for f in d.tracts[0].w_flags) != desc:
            ctx.violation('nonsequential-flag', case,
                          f"PLSSDesc('T154N-R97W Sec 14: {txt}', parse_qq="
                          f"True): descending range present={desc} but the "
                          f"tract's warnings are {d.tracts[0].w_flags}",
                          dedup=f"plss|{desc}")


class UnpackBroken(Exception):
    pass


def install_contracts(ctx, rep):
    from pytrs.parser.unpack import unpackers as UP

    def sections_match_model(self, txt, result):
        ctx.hit('contract:unpack_sections')
        items = E.read_list(txt) if isinstance(txt, str) else None
        if items is None:
            ctx.hit('contract:unpack_sections:skipped')
            return True
        exp, _ = E.expand(items)
        if any(n > 99 for n in exp):
            return True
        e = [f"{n:02d}" for n in exp]
        if list(result) != e:
            rep.report('C05:unpack_sections-contract',
                       f"unpack_sections({txt!r}) -> {list(result)}, model "
                       f"{e}", dedup='sec')
        return True

    def lots_match_model(self, txt, result):
        ctx.hit('contract:unpack_lots')
        items = E.read_list(txt) if isinstance(txt, str) else None
        if items is None:
            ctx.hit('contract:unpack_lots:skipped')
            return True
        exp, _ = E.expand(items)
        e = [f"L{n}" for n in exp]
        if list(result) != e:
            rep.report('C05:unpack_lots-contract',
                       f"unpack_lots({txt!r}) -> {list(result)}, model {e}",
                       dedup='lot')
        return True

    UP.SecUnpacker.unpack_sections = icontract.ensure(
        sections_match_model, error=UnpackBroken)(
            UP.SecUnpacker.__dict__['unpack_sections'])
    UP.LotUnpacker.unpack_lots = icontract.ensure(
        lots_match_model, error=UnpackBroken)(
            UP.LotUnpacker.__dict__['unpack_lots'])


def _setup(ctx):
    import pytrs
    import warnings
    from ..monitors.core import Reporter
    warnings.simplefilter('ignore')
    rep = Reporter(ctx)
    install_contracts(ctx, rep)
    return pytrs, rep


def run_shard(shard, ctx):
    pytrs, rep = _setup(ctx)
    fam = shard['family']
    if fam == 'pairs-sec':
        for a in range(1, 100):
            for b in range(1, 100):
                if a != b:
                    j = THRU[(a + b) % len(THRU)]
                    check_sec([(a, b)], f"Sections {a}{j}{b}", ctx, rep, pytrs)
        return
    if fam == 'pairs-lot':
        for a in range(1, 151):
            for b in range(1, 151):
                if a != b:
                    j = THRU[(a + b) % len(THRU)]
                    check_lot([(a, b)], f"Lots {a}{j}{b}", ctx, rep, pytrs)
        return
    rng = ctx.rng(fam, shard['i'])
    for _ in range(shard['n']):
        if fam == 'sec':
            items = gen_items(rng, 99)
            check_sec(items, render(rng, items, SEC_WORDS), ctx, rep, pytrs)
        else:
            items = gen_items(rng, 999)
            check_lot(items, render(rng, items, LOT_WORDS, acreage=True),
                      ctx, rep, pytrs)


def replay(case, ctx):
    pytrs, rep = _setup(ctx)
    items = [tuple(i) if isinstance(i, list) else i for i in case['items']]
    if case['kind'] == 'sec':
        check_sec(items, case['text'], ctx, rep, pytrs)
    else:
        check_lot(items, case['text'], ctx, rep, pytrs)


MANIFEST_TEXT = (
    "Held on every list observed: 20k (quick) / ~400k (thorough) generated "
    "section and lot lists in every connective and keyword spelling, judged "
    "at find_sec / PLSSDesc / Tract against an inclusive-range expansion "
    "model, which also runs as an icontract post-condition on the two real "
    "unpackers; thorough enumerates every single range (a, b). Exploration.")
LEVEL_NOTE = ("Trusts pv/oracles/elided.py (expansion + own tokenizer that "
              "refuses texts it cannot read unambiguously).")
TECHNIQUE = ("runtime contract (icontract ensure on SecUnpacker."
             "unpack_sections / LotUnpacker.unpack_lots) + reference "
             "expansion model at the API boundary")
