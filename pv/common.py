"""Shared plumbing: the per-shard accumulator (Ctx), hashing, seeded RNG."""

import collections
import hashlib
import json
import random
import traceback

MAX_VIOLATIONS_KEPT = 60      # per shard (all are counted)
MAX_SAMPLES_PER_SHAPE = 2
MAX_SAMPLES = 14


def canon(obj):
    """Canonical JSON text of a JSON-able object."""
    return json.dumps(obj, sort_keys=True, ensure_ascii=False, default=repr)


def h(obj):
    """Short stable hash of a JSON-able object (or a str)."""
    if not isinstance(obj, str):
        obj = canon(obj)
    return hashlib.blake2b(obj.encode('utf-8', 'surrogatepass'),
                           digest_size=8).hexdigest()


def rng_for(seed, prop, *tags):
    """A deterministic RNG for (seed, property, tags...)."""
    key = "/".join(str(x) for x in (seed, prop) + tags)
    return random.Random(key)


class PropertyBroken(Exception):
    """Raised by a deciding contract; caught by the case guard."""

    def __init__(self, kind, detail, **extra):
        super().__init__(f"{kind}: {detail}")
        self.kind = kind
        self.detail = detail
        self.extra = extra


class Ctx:
    """
    What one worker observed: evaluations, distinct non-trivial cases,
    shape histogram, monitor hit counters, samples, violations.
    """

    def __init__(self, prop, tier, seed, shard):
        self.prop = prop
        self.tier = tier
        self.seed = seed
        self.shard = shard
        self.evaluations = 0
        self.nontrivial = set()
        self.hist = collections.Counter()
        self.hits = collections.Counter()
        self.discarded = collections.Counter()
        self.samples = []
        self._samples_per_shape = collections.Counter()
        self.violations = []
        self.n_violations = 0
        self.extra = {}
        # Set by replay so violations are not deduplicated.
        self.replaying = False
        # Partial results are written here every few seconds, so that a
        # shard that later hangs or dies still reports what it observed.
        self.checkpoint_path = None
        self._last_checkpoint = 0.0
        self._seen_violation_keys = collections.Counter()

    # -- observation ---------------------------------------------------
    def case(self, key, nontrivial=True, shape=None, sample=None):
        """Count one evaluated case. ``key`` identifies the abstract case."""
        self.evaluations += 1
        if self.checkpoint_path and (self.evaluations & 15) == 0:
            self.checkpoint()
        if nontrivial:
            self.nontrivial.add(h(key))
        if shape is not None:
            self.hist[shape] += 1
        if sample is not None and len(self.samples) < MAX_SAMPLES:
            sh = shape if shape is not None else ''
            if self._samples_per_shape[sh] < MAX_SAMPLES_PER_SHAPE:
                self._samples_per_shape[sh] += 1
                self.samples.append(sample)

    def hit(self, monitor, n=1):
        self.hits[monitor] += n

    def discard(self, why):
        self.discarded[why] += 1

    # -- verdicts ------------------------------------------------------
    def violation(self, kind, case, detail, dedup=None, **extra):
        """
        Record a violation. ``case`` must be JSON-able and sufficient for
        ``props.cNN.replay(case, ctx)``. ``dedup`` (optional) collapses
        repeats of the same mechanism inside one shard.
        """
        self.n_violations += 1
        self._last_checkpoint = 0.0      # checkpoint soon after a violation
        if dedup is not None and not self.replaying:
            # Keep at most a few witnesses per (kind, mechanism); all are
            # counted.
            k = (kind, dedup)
            self._seen_violation_keys[k] += 1
            if self._seen_violation_keys[k] > 3:
                self.hist[f"violation-repeat:{kind}"] += 1
                return
        if len(self.violations) < MAX_VIOLATIONS_KEPT:
            v = {"kind": kind, "case": case, "detail": detail}
            v.update(extra)
            self.violations.append(v)

    def checkpoint(self, force=False):
        import json
        import os
        import time
        now = time.time()
        if not force and now - self._last_checkpoint < 4.0:
            return
        self._last_checkpoint = now
        tmp = self.checkpoint_path + '.tmp'
        try:
            with open(tmp, 'w') as f:
                json.dump(self.to_json(), f, ensure_ascii=False, default=repr)
            os.replace(tmp, self.checkpoint_path)
        except OSError:
            pass

    def guard(self, case, kind_prefix="exception"):
        """Context manager: any exception inside becomes a violation."""
        return _Guard(self, case, kind_prefix)

    def rng(self, *tags):
        return rng_for(self.seed, self.prop, *tags)

    def to_json(self):
        return {
            "prop": self.prop,
            "tier": self.tier,
            "seed": self.seed,
            "shard": self.shard,
            "evaluations": self.evaluations,
            "nontrivial": sorted(self.nontrivial),
            "hist": dict(self.hist),
            "hits": dict(self.hits),
            "discarded": dict(self.discarded),
            "samples": self.samples,
            "violations": self.violations,
            "n_violations": self.n_violations,
            "extra": self.extra,
        }


class _Guard:
    def __init__(self, ctx, case, kind_prefix):
        self.ctx = ctx
        self.case = case
        self.kind_prefix = kind_prefix

    def __enter__(self):
        return self

    def __exit__(self, et, ev, tb):
        if et is None:
            return False
        if issubclass(et, (KeyboardInterrupt, SystemExit, MemoryError)) \
                or et.__name__ == 'CaseTimeout':
            # (CaseTimeout: the CPU-time box around the case fired; the
            # caller discards the case -- never a verdict on the property.)
            return False
        if issubclass(et, PropertyBroken):
            self.ctx.violation(ev.kind, self.case, ev.detail, **ev.extra)
            return True
        # icontract's ViolationError or any exception out of pytrs.
        tail = traceback.format_exception(et, ev, tb)[-6:]
        frames = traceback.extract_tb(tb)
        where = ''
        for fr in reversed(frames):
            if '/pytrs/' in fr.filename:
                where = f"{fr.filename.split('/pytrs/')[-1]}:{fr.name}"
                break
        self.ctx.violation(
            f"{self.kind_prefix}:{et.__name__}", self.case,
            f"{et.__name__}: {ev}"[:500],
            dedup=f"{et.__name__}@{where}",
            where=where, traceback="".join(tail)[-1500:])
        return True


def short(s, n=200):
    s = s if isinstance(s, str) else repr(s)
    return s if len(s) <= n else s[:n - 3] + '...'


# ---------------------------------------------------------------------------
# CPU-time boxing of a single case (ITIMER_VIRTUAL counts this process's
# user CPU time, so a loaded machine does not shorten it).

import contextlib
import signal


class CaseTimeout(BaseException):
    """The case used more CPU time than its box allows."""


def _on_vtalrm(signum, frame):
    raise CaseTimeout()


@contextlib.contextmanager
def cpu_timebox(seconds):
    old = signal.signal(signal.SIGVTALRM, _on_vtalrm)
    signal.setitimer(signal.ITIMER_VIRTUAL, seconds)
    try:
        yield
    finally:
        signal.setitimer(signal.ITIMER_VIRTUAL, 0)
        signal.signal(signal.SIGVTALRM, old)
