"""One shard of one property's workload, in one fresh interpreter.

Usage (from runner.py):
    /venv/bin/python -m pv.worker --prop C01 --repo /repo \
        --shard-file IN.json --out OUT.json
"""

import argparse
import faulthandler
import importlib
import json
import os
import sys
import time


def main():
    ap = argparse.ArgumentParser()
    ap.add_argument('--prop', required=True)
    ap.add_argument('--repo', required=True)
    ap.add_argument('--shard-file', required=True)
    ap.add_argument('--out', required=True)
    ap.add_argument('--watchdog', type=float, default=0)
    args = ap.parse_args()

    verif = os.path.dirname(os.path.dirname(os.path.abspath(__file__)))
    repo = os.path.abspath(args.repo)
    for p in (os.path.join(verif, '.deps'), verif, repo):
        if p in sys.path:
            sys.path.remove(p)
        sys.path.insert(0, p)

    if args.watchdog:
        faulthandler.dump_traceback_later(args.watchdog, exit=False)

    with open(args.shard_file) as f:
        job = json.load(f)

    import pytrs
    pytrs_dir = os.path.dirname(os.path.abspath(pytrs.__file__))
    if not pytrs_dir.startswith(repo + os.sep):
        print(f"pytrs imported from {pytrs_dir}, not from {repo}",
              file=sys.stderr)
        sys.exit(3)

    from pv.common import Ctx
    mod = importlib.import_module(f"pv.props.{args.prop.lower()}")
    ctx = Ctx(args.prop, job['tier'], job['seed'], job['shard'])
    ctx.checkpoint_path = args.out + '.partial'
    t0 = time.time()
    c0 = time.process_time()
    if job.get('replay') is not None:
        ctx.replaying = True
        mod.replay(job['replay'], ctx)
    else:
        mod.run_shard(job['shard'], ctx)
    out = ctx.to_json()
    out['wall_s'] = time.time() - t0
    out['cpu_s'] = time.process_time() - c0
    out['pytrs_dir'] = pytrs_dir
    tmp = args.out + '.tmp'
    with open(tmp, 'w') as f:
        json.dump(out, f, ensure_ascii=False, default=repr)
    os.replace(tmp, args.out)


if __name__ == '__main__':
    main()
