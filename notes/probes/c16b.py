import pytrs, time, sys, itertools, multiprocessing as mp, signal
def run(txt):
    t=time.process_time()
    try: pytrs.PLSSDesc(txt, parse_qq=True)
    except Exception as e: pass
    return time.process_time()-t
units = [' ', '\t', '\n', '.', '. ', ', ', ',', ';', ':', '-', ' - ', ' and ', ' & ', ' of ', ' the ', 'of the ', 'N', 'NE', 'N2', 'N/2', 'NE/4 ', 'North ', 'T', 'R', '1', '12 ', 'Sec ', 'Sec 1 ', 'Sec 1, ', 'Lot ', 'Lot 1, ', 'Lots 1-3, ', 'T1N-R1W ', 'T154N-R97W\n', ' thru ', ' to ', 'through ', '/', '(', ')', '(1.0) ', '½', '¼', 'o', 'f', 't', 'h', 'e', 'P', 'M', 'P.M. ', 'Principal ', 'Meridian ', '°', "'", '"', 'X', 'all ', 'ALL ', 'south', 'west ', 'e ', 'w ', 's ', 'n ', 'Township ', 'Range ', 'Twp. ', 'Rge. ', '5th ', 'less ', 'except ', 'in so far ', 'only ', '0', 'I', 'l', 'O', 'S', '|', ']', '_', '~', '–', '—', '§', 's', 'ee', 'ss', 'hh','ii','pp','ww','nn','oo', 'aa']
prefixes = ['', 'T154N-R97W ', 'T154N-R97W Sec 14', 'T154N-R97W Sec 14: ', 'T154N-R97W Sec 14: Lot 1', 'T154N-R97W Sec 14: N/2', 'Sec 14', 'NE/4 of Sec 14', 'T154N-R97W Sec 14: NE/4 of the', 'Township 154 North', 'T154N-R97']
suffixes = ['', ' Sec 15: W/2', 'X', ' T154N-R97W', '1', ' P.M.', ' NE/4']
def worker(args):
    p,u,s,n = args
    txt = p + u*n + s
    signal.alarm(12)
    try:
        t = run(txt)
    except BaseException as e:
        t = 99.0
    signal.alarm(0)
    return (p,u,s,n,len(txt),t)
class TO(Exception): pass
def h(*a): raise TO()
signal.signal(signal.SIGALRM, h)
if __name__=='__main__':
    jobs=[]
    for p in prefixes:
        for u in units:
            for s in suffixes:
                n = max(1, 150//len(u))
                jobs.append((p,u,s,n))
    print(len(jobs)); sys.stdout.flush()
    with mp.Pool(16) as pool:
        res = pool.map(worker, jobs, chunksize=4)
    slow = [r for r in res if r[5] > 0.5]
    print(len(slow), 'slow of', len(res))
    import json
    json.dump(res, open('c16b_fixed.json','w'))
    from collections import Counter
    c = Counter((r[1]) for r in slow)
    print(c.most_common())
