import random, pytrs, collections, re, sys, signal, time
R=random.Random(int(sys.argv[1]) if len(sys.argv)>1 else 19)
VOC=['T154N-R97W','T1S-R2E','Township 7 South, Range 9 East','154N-97W','T154-R97','Sec','Section','Sec 14','Sec 1 - 3','Section 100','Sec 5:',':',',',';','\n','NE/4','N/2','Lot 1','Lots 1 - 3','of','the','in','and','ALL','that part of','lying within','less and except','wellbore','P.M.','5th','§','§ 12','Secs 4 and 9','through','-','T154N','R97W','97W','XX','foo','(40.00)','Sec.','Sect. 8','12','N','W','Twp. 8 N., Rge. 3 W.']
CFGS=['','segment','sec_within','sec_colon_required','sec_colon_cautious','ocr_scrub','clean_qq','segment,sec_within','s,e','qq_depth.1','TRS_desc','desc_STR','copy_all','S_desc_TR','TR_desc_S','segment,sec_colon_cautious','wait_to_parse']
STD=re.compile(r'^(\d{1,3}[ns]|XXXz)(\d{1,3}[ew]|XXXz)(\d{2}|XX)$')
bad=collections.Counter(); ex={}
class TO(Exception): pass
def h(*a): raise TO()
signal.signal(signal.SIGALRM,h)
N=0; slow=0
for i in range(4000):
    toks=[R.choice(VOC) for _ in range(R.randint(1,9))]
    txt=' '.join(toks)
    cfg=R.choice(CFGS)
    N+=1
    signal.alarm(3)
    try:
        d=pytrs.PLSSDesc(txt,config=cfg,parse_qq=True,source='SRC')
        if cfg=='wait_to_parse': d.parse()
        signal.alarm(0)
    except TO:
        slow+=1; continue
    except Exception as e:
        signal.alarm(0)
        bad['EXC '+type(e).__name__+' '+str(e)[:40]]+=1; ex.setdefault('EXC '+type(e).__name__,[]).append((txt,cfg)); continue
    why=None
    if len(d.tracts)<1: why='notracts'
    for k,t in enumerate(d.tracts):
        if not STD.match(t.trs): why='nonstd '+t.trs
        elif t.twprge+t.sec!=t.trs or t.twp+t.rge!=t.twprge: why='decomp'
        elif t.orig_desc!=txt: why='orig'
        elif t.orig_index!=k: why='index'
        elif t.source!='SRC': why='source'
        elif (t.twp_num is None)!=(t.twp=='XXXz') or (t.sec_num is None)!=(t.sec=='XX'): why='num'
        # flags typing
        for fl,fll in ((t.w_flags,t.w_flag_lines),(t.e_flags,t.e_flag_lines)):
            if not all(isinstance(f,str) for f in fl): why='flagtype'
            elif not all(isinstance(x,tuple) and len(x)==2 and all(isinstance(y,str) for y in x) for x in fll): why='flaglinetype'
            elif len(fl)!=len(fll): why='flaglen %d %d'%(len(fl),len(fll))
        for f in d.flags:
            if f not in t.flags: why='notshared'
    if d.desc_is_flawed!=bool(d.e_flags): why='flawed'
    if any(t.trs_is_error() for t in d.tracts) and not d.e_flags: why='err-noflag'
    full=[t for t in d.tracts if t.desc==d.pp_desc]
    if len(full)>1: why='dupfull'
    if why: bad[why.split()[0]]+=1; ex.setdefault(why.split()[0],[]).append((txt,cfg,why,[(t.trs,t.desc) for t in d.tracts]))
print(N,'slow',slow,bad)
for k,v in ex.items():
    for x in v[:3]: print(k,x)
