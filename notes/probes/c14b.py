import random, pytrs, collections, copy, sys
from collections import Counter
from pytrs import PLSSDesc, Tract
R=random.Random(int(sys.argv[1]) if len(sys.argv)>1 else 47)
TEXTS=["T154N-R97W Sec 14: Lots 1, 1, NE/4, NE/4 less and except the wellbore, Sec 15: Lots 3 - 1, W/2",
       "NE/4 of Sec 1 - 3, T1S-R2E, Lot 1(40.0), Lot 1(39.0) of Section 9, T154-R97",
       "T154N-R97W Sec 14 NE, Sec 15: N/2NE/4NE/4",
       "That part of the NE/4 of Sec 13 - 15 lying within RoW, T154N-R97W", "foo bar", "T154N-R97W Section NE/4"]
def tsnap(t):
    return (t.trs,t.desc,t.pp_desc,tuple(t.lots),tuple(t.qqs),tuple(sorted(t.lot_acres.items())),tuple(t.aliquots_whole),
            frozenset(Counter(t.w_flags).items()),frozenset(Counter(map(tuple,t.w_flag_lines)).items()),frozenset(Counter(t.e_flags).items()),frozenset(Counter(map(tuple,t.e_flag_lines)).items()),t.parse_complete,t.orig_index)
def dsnap(d):
    return (tuple(tsnap(t) for t in d.tracts), d.pp_desc, d.current_layout, d.layout, frozenset(Counter(d.w_flags).items()), frozenset(Counter(d.e_flags).items()),
            frozenset(Counter(map(tuple,d.w_flag_lines)).items()), frozenset(Counter(map(tuple,d.e_flag_lines)).items()), d.config.decompile_to_text(),
            tuple(getattr(d,a) for a in ('default_ns','default_ew','parse_qq','clean_qq','sec_colon_required','sec_colon_cautious','segment','ocr_scrub','sec_within','qq_depth','qq_depth_min','qq_depth_max','break_halves')))
CFGS=['clean_qq','segment','sec_within','qq_depth.1','s,e','sec_colon_cautious','parse_qq','break_halves,qq_depth_min.3','parse_qq.False']
def rand_kw():
    kw={}
    for k,vals in dict(parse_qq=[True,False],clean_qq=[True,False],segment=[True,False],sec_within=[True],default_ns=['s'],qq_depth=[1,3],break_halves=[True],layout=['copy_all','TRS_desc'],sec_colon_required=[True]).items():
        if R.random()<.2: kw[k]=R.choice(vals)
    return kw
def rand_op():
    k=R.choice(['parse_nc','parse_c','parse_tracts','preprocess','config','sort','filter'])
    if k=='parse_nc': return ('parse',dict(commit=False,**rand_kw()))
    if k=='parse_c': return ('parse',dict(commit=True,**rand_kw()))
    if k=='parse_tracts': return ('parse_tracts',dict(R.choice([{},{'clean_qq':True},{'qq_depth':1},{'config':'clean_qq'}])))
    if k=='preprocess': return ('preprocess',dict(commit=R.random()<.3))
    if k=='config': return ('config',R.choice(CFGS))
    if k=='sort': return ('sort',R.choice(['s','t.ns,s.rev','i']))
    return ('filter',R.choice(['14','01']))
def apply(d,op):
    k,a=op
    if k=='parse': return d.parse(**a)
    if k=='parse_tracts': return d.parse_tracts(**a)
    if k=='preprocess': return d.preprocess(**a)
    if k=='config': d.config=a
    if k=='sort': d.sort_tracts(a)
    if k=='filter': d.filter(lambda t:t.sec==a, drop=True)
bad=Counter(); ex={}
for it in range(1500):
    txt=R.choice(TEXTS); cfg0=R.choice(['',None,'parse_qq','clean_qq,parse_qq'])
    ops=[rand_op() for _ in range(R.randint(1,8))]
    try:
        d=PLSSDesc(txt,config=cfg0)
        for op in ops:
            before=dsnap(d)
            apply(d,op)
            if (op[0]=='parse' and not op[1]['commit']) or (op[0]=='preprocess' and not op[1]['commit']):
                if dsnap(d)!=before: bad['nc-sideeffect']+=1; ex.setdefault('nc',[]).append((txt,ops,op))
            if op[0]=='parse' and op[1]['commit']:
                s1=dsnap(d); apply(d,op); apply(d,op)
                if dsnap(d)!=s1: bad['repeat']+=1; ex.setdefault('repeat',[]).append((txt,op))
            if op[0]=='parse_tracts':
                s1=dsnap(d); apply(d,op); apply(d,op)
                if dsnap(d)!=s1: bad['repeat-pt']+=1; ex.setdefault('repeat-pt',[]).append((txt,cfg0,ops,op))
        # reference replay
        last=max([i for i,o in enumerate(ops) if o[0]=='parse' and o[1]['commit']],default=-1)
        ref=PLSSDesc(txt,config=cfg0)
        for i,op in enumerate(ops):
            if op[0]=='config': apply(ref,op)
            elif i==last: apply(ref,op)
            elif i>last and op[0] in ('parse_tracts','sort','filter'): apply(ref,op)
            elif i>last and op[0]=='preprocess' and op[1]['commit']: apply(ref,op)
        a,b=dsnap(d),dsnap(ref)
        if a!=b:
            bad['replay']+=1; ex.setdefault('replay',[]).append((txt,cfg0,ops,[x for x,y in zip(a,b) if x!=y][:1]))
    except Exception as e:
        bad['exc '+type(e).__name__]+=1; ex.setdefault('exc',[]).append((txt,cfg0,ops,repr(e)))
print(bad)
for k,v in ex.items():
    for x in v[:2]: print('--',k,x)
