import random, pytrs, collections, itertools
from pytrs import MasterConfig
R=random.Random(17)
def forms(t,ns,r,ew, drop_ns=False, drop_ew=False):
    NS={'n':'North','s':'South'}[ns]; EW={'e':'East','w':'West'}[ew]
    n_ = '' if drop_ns else ns.upper(); e_ = '' if drop_ew else ew.upper()
    N_ = '' if drop_ns else ' '+NS; E_ = '' if drop_ew else ' '+EW
    nd = '' if drop_ns else f' {ns.upper()}.'; ed = '' if drop_ew else f' {ew.upper()}.'
    f = {
      'compact': f"T{t}{n_}-R{r}{e_}",
      'words': f"Township {t}{N_}, Range {r}{E_}",
      'abbr': f"Twp. {t}{nd}, Rge. {r}{ed}",
      'dashed': f"T-{t}" + ('' if drop_ns else f"-{ns.upper()}") + f"-R-{r}" + ('' if drop_ew else f"-{ew.upper()}"),
      'lower': f"t{t}{'' if drop_ns else ns}r{r}{'' if drop_ew else ew}",
    }
    if not drop_ns and not drop_ew and r!=2: f['bare']=f"{t}{ns.upper()}-{r}{ew.upper()}"
    return f
bad=collections.Counter(); ex={}
n=0
for i in range(4000):
    t=R.choice([R.randint(1,9),R.randint(10,99),R.randint(100,200)]); r=R.choice([R.randint(1,9),R.randint(10,99),R.randint(100,130)])
    ns=R.choice('ns'); ew=R.choice('ew')
    for (dn,de) in [(False,False),(True,False),(False,True),(True,True)]:
        dns=R.choice('ns'); dew=R.choice('ew')
        ens = dns if dn else ns; eew = dew if de else ew
        want=f"T{t}{ens.upper()}-R{r}{eew.upper()}"
        for name,f in forms(t,ns,r,ew,dn,de).items():
            if name=='lower' and (dn or de): continue
            txt=f"{f} Sec 14: NE/4"
            n+=1
            try:
                d=pytrs.PLSSDesc(txt, config=f"{dns},{dew}")
            except Exception as e:
                bad['EXC']+=1; ex.setdefault('EXC',[]).append((txt,repr(e))); continue
            why=None
            trs=f"{t}{ens}{r}{eew}14"
            if [x.trs for x in d.tracts]!=[trs]: why=f'trs-{name}-{dn}{de}'
            elif not d.pp_desc.startswith(want+' '): why=f'pp-{name}'
            elif (dn or de) != any(w.startswith('fixed_twprge') for w in d.w_flags): why=f'fixflag-{name}-{dn}{de}'
            else:
                ft=pytrs.find_twprge(txt, preprocess=True, default_ns=dns, default_ew=dew)
                if ft!=[want]: why=f'find-{name}'
            if why: bad[why]+=1; ex.setdefault(why,[]).append((txt,dns,dew,[x.trs for x in d.tracts],d.pp_desc,d.w_flags))
print(n,bad)
for k,v in ex.items():
    for x in v[:3]: print(k,x)
