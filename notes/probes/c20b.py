import random, pytrs, collections
R=random.Random(31)
LEAD=['That part of the NE/4','The north 100 feet','All that portion','A tract of land','That part of Lot 1','NE/4']
TRAIL=['lying within RoW','lying north of the river','described as follows','less and except the wellbore','containing 40 acres, more or less','']
def secs():
    k=R.choice(['s','r','a'])
    if k=='s': n=R.randint(1,36); return f"{R.choice(['Sec','Section','Sec.'])} {n}",[n]
    if k=='r': a=R.randint(1,30); b=a+R.randint(1,3); return f"{R.choice(['Sec','Sections','Secs'])} {a} - {b}", list(range(a,b+1))
    a,b=R.sample(range(1,37),2); return f"Sections {a} and {b}",[a,b]
bad=collections.Counter(); ex={}
for i in range(3000):
    lead=R.choice(LEAD); trail=R.choice(TRAIL); st,nums=secs()
    t=R.randint(1,160); r=R.randint(3,99); tr=f"T{t}N-R{r}W"
    place=R.choice(['before','before_nl','within','after'])
    conn=R.choice([' of ',' in '])
    if place=='before': txt=f"{tr}: {lead}{conn}{st} {trail}"
    elif place=='before_nl': txt=f"{tr}\n{lead}{conn}{st} {trail}"
    elif place=='within': txt=f"{lead}{conn}{st}, {tr} {trail}"
    else: txt=f"{lead}{conn}{st} {trail}, {tr}"
    txt=txt.strip().rstrip(',')
    try: d=pytrs.PLSSDesc(txt,config='sec_within')
    except Exception as e:
        bad['exc '+type(e).__name__]+=1; ex.setdefault('exc',[]).append(txt); continue
    exp_desc=(lead+' '+trail).strip()
    exp=[(f"{t}n{r}w{n:02d}",exp_desc) for n in nums]
    got=[(x.trs,x.desc) for x in d.tracts]
    why=None
    if got!=exp: why='tracts-'+place+('-notrail' if not trail else '')
    elif trail and not all(f"sec_within<{e[0]}>" in d.w_flags for e in exp): why='flag'
    if why: bad[why]+=1; ex.setdefault(why,[]).append((txt,exp,got,d.w_flags,d.e_flags))
print(bad)
for k,v in ex.items():
    for x in v[:3]: print('--',k); print(x)
