import pytrs
from pytrs import Config, PLSSDesc, Tract
# roundtrip
for txt in ['n,w','s,e,clean_qq','parse_qq.False','qq_depth.3','qq_depth_min.1,qq_depth_max.4','TRS_desc,segment','copy_all','default_ns.s','default_ns=s,default_ew:e','sec_colon_required,sec_colon_cautious.False','wait_to_parse','break_halves,sec_within,ocr_scrub,suppress_lot_divs', 'N,W', 'clean_qq=True', 'layout.desc_STR', 'qq_depth.None','clean_qq.None', 'clean_qq.1', 'clean_qq.foo','qq_depth.abc']:
    try:
        c = Config(txt); t = c.decompile_to_text(); c2 = Config(t)
        print(repr(txt), '->', repr(t), t == c2.decompile_to_text(), {a:getattr(c,a) for a in Config._CONFIG_ATTRIBUTES if getattr(c,a) is not None})
    except Exception as e:
        print(repr(txt), 'EXC', type(e).__name__, e)
for bad in ['foo','clean_qqq','n,foo.3','qq_depth_mid.2', 'a.b.c', 'clean_qq.True.False']:
    try:
        print(bad, Config(bad).decompile_to_text())
    except Exception as e:
        print(bad, 'EXC', type(e).__name__, e)
try:
    Config(5)
except Exception as e: print('Config(5)', type(e).__name__, type(e).__mro__)
# channels
txt = "T154N-R97W Sec 14 NE/4, Sec 15: W/2"
a = PLSSDesc(txt, config='sec_colon_required')
print('cfg', [(t.trs,t.desc) for t in a.tracts])
b = PLSSDesc(txt)
print('kw ', [(t.trs,t.desc) for t in b.parse(sec_colon_required=True, commit=False)])
b2 = PLSSDesc(txt, config='sec_colon_required')
print('kw False over cfg True', [(t.trs,t.desc) for t in b2.parse(sec_colon_required=False, commit=False)])
c = PLSSDesc(txt, config='wait_to_parse'); c.config='sec_colon_required'; c.parse()
print('asg', [(t.trs,t.desc) for t in c.tracts])
# tract-level kw via PLSSDesc.parse
d = PLSSDesc("T154N-R97W Sec 14: NE")
print('clean_qq kw', [t.qqs for t in d.parse(parse_qq=True, clean_qq=True, commit=False)])
print('clean_qq cfg', [t.qqs for t in PLSSDesc("T154N-R97W Sec 14: NE", config='clean_qq,parse_qq').tracts])
d = PLSSDesc("T154N-R97W Sec 14: NE/4")
print('depth kw', [t.qqs for t in d.parse(parse_qq=True, qq_depth=1, commit=False)])
print('depth cfg', [t.qqs for t in PLSSDesc("T154N-R97W Sec 14: NE/4", config='qq_depth.1,parse_qq').tracts])
print('bh kw', [t.qqs for t in PLSSDesc("T154N-R97W Sec 14: N/2NE/4NE/4").parse(parse_qq=True, break_halves=True, commit=False)])
print('bh cfg', [t.qqs for t in PLSSDesc("T154N-R97W Sec 14: N/2NE/4NE/4", config='break_halves,parse_qq').tracts])
# default_ns kw
print('ns kw', [t.trs for t in PLSSDesc("T154-R97 Sec 14: NE/4", config='n').parse(default_ns='s', commit=False)])
print('ns cfg over master', [t.trs for t in PLSSDesc("T154-R97 Sec 14: NE/4", config='s').tracts])
# Tract
t = Tract('NE', parse_qq=True, config='clean_qq'); print(t.qqs)
t = Tract('NE'); print(t.parse(clean_qq=True), t.qqs)
t = Tract('NE', config='clean_qq'); print(t.parse(clean_qq=False))
t = Tract('N/2 of Lot 1', config='suppress_lot_divs,parse_qq'); print(t.lots)
t = Tract('N/2 of Lot 1'); print(t.parse(suppress_lot_divs=True))
t = Tract('N/2NE/4NE/4', config='qq_depth.2'); print(t.parse(qq_depth_min=3), t.parse(qq_depth=1), t.parse())
