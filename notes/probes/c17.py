import random, pytrs, collections, warnings
from pytrs import Tract, TRS, TractList, TRSList
R=random.Random(23)
def rtrs():
    twp = R.choice([f"{R.randint(0,12)}{R.choice('ns')}",'XXXz','___z'] if R.random()<.3 else [f"{R.randint(1,6)}{R.choice('ns')}"])
    rge = R.choice([f"{R.randint(0,12)}{R.choice('ew')}",'XXXz','___z'] if R.random()<.3 else [f"{R.randint(1,6)}{R.choice('ew')}"])
    sec = R.choice([f"{R.randint(0,36):02d}",'XX','__'] if R.random()<.3 else [f"{R.randint(1,9):02d}"])
    return twp+rge+sec
def keyval(el, km):
    if km=='i': return el._Tract__uid if isinstance(el,Tract) else 0
    v,m=km.split('.') if '.' in km else (km,'num')
    if v=='s': return (0,el.sec_num) if el.sec_num is not None else (1,0)
    num = el.twp_num if v=='t' else el.rge_num
    d = el.twp_ns if v=='t' else el.rge_ew
    if num is None: return (1,0)
    if m=='num': return (0,num)
    if m=='ns': return (0, -num if d=='n' else num)
    if m=='sn': return (0, num if d=='n' else -num)
    if m=='we': return (0, -num if d=='w' else num)
    if m=='ew': return (0, num if d=='w' else -num)
KEYS=['i','t','t.num','t.ns','t.sn','r','r.num','r.ew','r.we','s','s.num']
bad=0
for it in range(4000):
    n=R.randint(0,9)
    strs=[rtrs() for _ in range(n)]
    cls=R.choice([TractList,TRSList])
    els=[Tract('x',trs=s) for s in strs] if cls is TractList else [TRS(s) for s in strs]
    R.shuffle(els)
    lst=cls(els)
    ks=[R.choice(KEYS)+R.choice(['','','.rev','.reverse']) for _ in range(R.randint(1,3))]
    keystr=R.choice([',',', ',' , ']).join(ks)
    if R.random()<.2: keystr=keystr.upper()
    model=list(els)
    for k in ks:
        rev=k.endswith('.rev') or k.endswith('.reverse')
        km=k.replace('.reverse','').replace('.rev','')
        if rev:
            # errors first, then descending by value, stable
            model.sort(key=lambda e:keyval(e,km), reverse=True)
        else:
            model.sort(key=lambda e:keyval(e,km))
    lst.custom_sort(keystr)
    got=list(lst)
    if [id(x) for x in got]!=[id(x) for x in model]:
        bad+=1
        if bad<6: print(keystr,[x.trs for x in els],[x.trs for x in got],[x.trs for x in model])
print('bad',bad)
