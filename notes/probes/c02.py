import random, sys, re, itertools, collections, warnings
from fractions import Fraction as F
import pytrs
warnings.simplefilter('ignore')
HALF={'N':(0,0),'S':(0,1),'E':(1,1),'W':(1,0)}  # axis 0 = NS (0 top=N), axis 1 = EW (0=W,1=E)
def apply(rect, comp):
    (y0,y1),(x0,x1)=rect
    if comp=='ALL': return rect
    for ch in comp:
        ax,side=HALF[ch]
        if ax==0:
            m=(y0+y1)/2; (y0,y1)=((y0,m) if side==0 else (m,y1))
        else:
            m=(x0+x1)/2; (x0,x1)=((x0,m) if side==0 else (m,x1))
    return ((y0,y1),(x0,x1))
UNIT=((F(0),F(1)),(F(0),F(1)))
def region(chain, maxd=None):
    # chain: list of comps as written left-to-right (smallest first). apply right-to-left.
    rect=UNIT; cnt=[0,0]
    for comp in reversed(chain):
        if comp=='ALL': continue
        for ch in comp:
            ax,side=HALF[ch]
            if maxd is not None and cnt[ax]>=maxd: continue
            cnt[ax]+=1
            rect=apply(rect,ch)
    return rect
def piece_rect(p):
    toks=re.findall(r'NE|NW|SE|SW|[NSEW]2|ALL',p)
    assert ''.join(toks)==p,p
    rect=UNIT
    for t in reversed(toks):
        rect=apply(rect,t.rstrip('2'))
    return rect,toks
def area(r): return (r[0][1]-r[0][0])*(r[1][1]-r[1][0])
def inside(a,b): return b[0][0]<=a[0][0] and a[0][1]<=b[0][1] and b[1][0]<=a[1][0] and a[1][1]<=b[1][1]
def overlap(a,b):
    return max(a[0][0],b[0][0])<min(a[0][1],b[0][1]) and max(a[1][0],b[1][0])<min(a[1][1],b[1][1])
SYM={'N':'N½','S':'S½','E':'E½','W':'W½','NE':'NE¼','NW':'NW¼','SE':'SE¼','SW':'SW¼','ALL':'ALL'}
R=random.Random(5)
bad=collections.Counter(); ex={}
COMPS=['N','S','E','W','NE','NW','SE','SW']
n=0
for L in range(1,6):
    chains = list(itertools.product(COMPS,repeat=L)) if L<=4 else [tuple(R.choice(COMPS) for _ in range(L)) for _ in range(3000)]
    for chain in chains:
        for (mn,mx,bh) in [(2,None,False),(1,None,False),(3,None,False),(2,2,False),(1,1,False),(2,3,False),(1,3,True),(2,None,True),(3,3,False),(1,2,False)]:
            txt=''.join(SYM[c] for c in chain)
            cfg=f'qq_depth_min.{mn}'+(f',qq_depth_max.{mx}' if mx else '')+(',break_halves' if bh else '')
            t=pytrs.Tract(txt,parse_qq=True,config=cfg)
            n+=1
            exp=region(list(chain),mx)
            rects=[]; why=None
            if t.aliquots_whole!=[txt.replace('¼','').replace('½','2')]: why='whole'
            for p in t.qqs:
                r,toks=piece_rect(p); rects.append(r)
                if not inside(r,exp): why='outside'
                # depth
                big=list(reversed(toks))
                if any(x.endswith('2') for x in big[:mn]): why=why or 'mindepth'
                if mx and len(toks)>mx: why=why or 'maxdepth'
                if bh and any(x.endswith('2') for x in toks): why=why or 'halves'
            if not why and sum(map(area,rects))!=area(exp): why='area'
            if not why:
                for a,b in itertools.combinations(rects,2):
                    if overlap(a,b): why='overlap';break
            if why:
                bad[why]+=1; ex.setdefault(why,[]).append((txt,cfg,t.qqs))
print(n,bad)
for k,v in ex.items():
    print(k, v[:6])
