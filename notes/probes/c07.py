import random, pytrs, collections, itertools
R=random.Random(11)
HALF={'N':['N½','N/2','N2','N 1/2','N1/2','North Half','North half','N. 1/2','North One Half','north half','No. Half'],
      'S':['S½','S/2','S2','S 1/2','South Half','S1/2','So. Half','South One Half'],
      'E':['E½','E/2','E2','E 1/2','East Half','E1/2','East One Half'],
      'W':['W½','W/2','W2','W 1/2','West Half','W1/2','West One Half']}
QUART={'NE':['NE¼','NE/4','NE4','NE 1/4','NE1/4','Northeast Quarter','North East Quarter','North East One Quarter','Northeast One Quarter','N.E. 1/4','North-East Quarter','northeast quarter'],
       'NW':['NW¼','NW/4','NW4','NW 1/4','Northwest Quarter','North West One Quarter','N.W. 1/4'],
       'SE':['SE¼','SE/4','SE4','SE 1/4','Southeast Quarter','South East One Quarter','S.E. 1/4'],
       'SW':['SW¼','SW/4','SW4','SW 1/4','Southwest Quarter','South West One Quarter','S.W. 1/4']}
CANON={'N':'N½','S':'S½','E':'E½','W':'W½','NE':'NE¼','NW':'NW¼','SE':'SE¼','SW':'SW¼'}
def spell(c): return R.choice(HALF[c] if c in HALF else QUART[c])
bad=collections.Counter(); ex={}
N=0
for i in range(20000):
    L=R.randint(1,4)
    chain=[R.choice(list(CANON)) for _ in range(L)]
    sp=[spell(c) for c in chain]
    txt=sp[0]
    for s_prev,s in zip(sp,sp[1:]):
        wordy = s_prev[-1].isalpha() or s[0].islower()
        j=R.choice([' ',' of ',' of the ','' ] if not (s_prev[-1].isalpha() and True) else [' ',' of ',' of the '])
        if j=='' and (s_prev[-1].isalpha()): j=' '
        txt+=j+s
    canon=''.join(CANON[c] for c in chain)
    for cfg in ['', 'clean_qq', 'qq_depth.3', 'qq_depth_min.1,break_halves']:
        N+=1
        a=pytrs.Tract(txt,parse_qq=True,config=cfg); b=pytrs.Tract(canon,parse_qq=True,config=cfg)
        why=None
        if a.pp_desc!=canon: why='pp'
        elif a.qqs!=b.qqs or a.lots!=b.lots: why='qqs'
        else:
            c=pytrs.Tract(a.pp_desc,parse_qq=True,config=cfg)
            if c.pp_desc!=a.pp_desc or c.qqs!=a.qqs: why='fixpoint'
        if why: bad[why]+=1; ex.setdefault(why,[]).append((txt,canon,cfg,a.pp_desc,a.qqs,b.qqs))
print(N,bad)
for k,v in ex.items():
    seen=set()
    for x in v:
        if len(seen)>25: break
        print(k,x); seen.add(x[0])
