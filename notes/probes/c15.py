import sys, json, random, subprocess, os
import pytrs
from pytrs import PLSSDesc, Tract, TRS, TractList, MasterConfig, trs_to_dict, find_twprge, find_sec
def battery():
    out=[]
    for txt,cfg in [("T154-R97 Sec 14: NE/4, Sec 15: Lots 1 - 3",""),("NE/4 of Sec 1 - 3, T1S-R2E","parse_qq"),("T154N-R97 Sec 14 NE","clean_qq,parse_qq,sec_colon_cautious"),("foo",""),("Township 7, Range 9 East Sec 1: ALL","s"),("T154N-R97W Sec 100: NE/4","")]:
        d=PLSSDesc(txt,config=cfg)
        out.append([d.pp_desc,d.current_layout,sorted(map(str,d.w_flags)),sorted(map(str,d.e_flags)),[(t.trs,t.desc,t.lots,t.qqs,t.twp,t.rge_num,t.sec_num) for t in d.tracts]])
    for desc,cfg in [("Lots 1 - 3, N/2NE/4",""),("NE of Lot 2, NE","clean_qq"),("S/2N/2NE/4","qq_depth.3")]:
        t=Tract(desc,trs='154n97w14',config=cfg,parse_qq=True); out.append([t.lots,t.qqs,t.pp_desc,t.trs,t.twp_num])
    for s in ['154n97w14','154N97W14','1154n97w14','XXXz97w01','___z___z__','','154n97w','7s9e01']:
        t=TRS(s); out.append([t.trs,t.twp,t.rge,t.sec,t.twp_num,t.rge_num,t.sec_num,t.twp_undef,t.is_error()]); out.append(sorted(trs_to_dict(s).items(),key=str))
    out.append([TRS.from_twprgesec(154,97,14).trs, TRS.from_twprgesec('7','9',1).trs, Tract.from_twprgesec('x',5,6,7).trs])
    out.append([find_twprge("T154-R97 and 7N-9",preprocess=True), find_sec("Sec 3 - 1, 5")])
    a=[Tract('a',trs='1n1w03'),Tract('b',trs='1n1w01'),Tract('c',trs='1n1w02')]
    tl=TractList([a[2],a[0],a[1]]); tl.custom_sort('i'); out.append([t.desc for t in tl])
    return json.loads(json.dumps(out,default=str))
if __name__=='__main__':
    if sys.argv[1]=='base':
        ns,ew=sys.argv[2],sys.argv[3]; MasterConfig.default_ns=ns; MasterConfig.default_ew=ew
        print(json.dumps(battery())); sys.exit()
    R=random.Random(int(sys.argv[1]))
    env=dict(os.environ)
    base={}
    for ns in 'ns':
        for ew in 'ew':
            base[(ns,ew)]=json.loads(subprocess.run([sys.executable,__file__,'base',ns,ew],capture_output=True,text=True,env=env).stdout)
    bad=0; steps=0
    OTHER=["T154N-R97W Sec 14: NE/4","T154-R97 Sec 14: NE/4, Sec 15: Lots 1 - 3","foo","Sec 1: ALL of T7S-R9E","T154N-R97 Sec 14 NE"]
    kept=[]
    for step in range(300):
        op=R.choice(['parse','master','clear','usecache','warm','mutate','keep','churn','probe_other_cfg'])
        if op=='parse': kept.append(PLSSDesc(R.choice(OTHER),config=R.choice(['','s,e','clean_qq,parse_qq','segment'])))
        elif op=='master':
            MasterConfig.default_ns=R.choice('ns'); MasterConfig.default_ew=R.choice('ew')
        elif op=='clear': TRS._clear_cache()
        elif op=='usecache': TRS._USE_CACHE=R.random()<.5
        elif op=='warm':
            for s in ['154n97w14','154N97W14','1154n97w14','XXXz97w01','',None,'154n97w','7s9e01','154n97w15']: TRS(s)
        elif op=='mutate':
            dct=trs_to_dict(R.choice(['154n97w14','7s9e01','']))
            for k in list(dct): dct[k]='JUNK'
            d=PLSSDesc("T154N-R97W Sec 14: Lots 1 - 3, NE/4",parse_qq=True)
            for row in d.tracts_to_list('lots','qqs','w_flags'):
                for cell in row:
                    if isinstance(cell,list): cell.append('JUNK')
            g=d.group_by('twprge'); g.clear()
            try: TRS._TRS__CACHE['154n97w14'] and None
            except KeyError: pass
        elif op=='keep':
            MasterConfig.default_ns='s'; kept.append(Tract.from_twprgesec('x',5,6,7)); MasterConfig.default_ns='n'
        elif op=='churn':
            for _ in range(200): Tract('x')
        elif op=='probe_other_cfg':
            PLSSDesc("T154-R97 Sec 14: NE/4, Sec 15: Lots 1 - 3",config='s,e'); Tract("Lots 1 - 3, N/2NE/4",trs='154n97w14',config='qq_depth.1',parse_qq=True)
        got=battery(); steps+=1
        key=(MasterConfig.default_ns,MasterConfig.default_ew)
        if got!=base[key]:
            bad+=1
            if bad<4:
                for i,(x,y) in enumerate(zip(got,base[key])):
                    if x!=y: print('DIFF',op,key,i,x,y); break
    print('steps',steps,'bad',bad)
