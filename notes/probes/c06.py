import random, pytrs, collections
R=random.Random(13)
HALVES=['N/2','S/2','E/2','W/2']; QS=['NE/4','NW/4','SE/4','SW/4']
def aliq():
    L=R.randint(1,3); return ''.join(R.choice(HALVES+QS) for _ in range(L))
def elem():
    k=R.choice(['lot','lotrange','lotacre','aliqlot','aliq','aliq','lots_and'])
    if k=='lot': return f"Lot {R.randint(1,20)}"
    if k=='lotrange':
        a=R.randint(1,15); return f"Lots {a} - {a+R.randint(1,4)}"
    if k=='lotacre':
        n=R.randint(1,20); ac=f"{R.randint(10,45)}.{R.randint(0,99):02d}"; br=R.choice(['()','[]'])
        return f"Lot {n}{R.choice(['',' '])}{br[0]}{ac}{br[1]}"
    if k=='aliqlot':
        a=R.randint(1,15)
        return f"{R.choice(HALVES+QS)} of " + R.choice([f"Lot {a}", f"Lots {a} - {a+2}", f"Lots {a} and {a+3}"])
    if k=='lots_and':
        a=R.randint(1,15); return f"Lots {a}, {a+2} and {a+5}"
    return aliq()
def res(txt,cfg):
    t=pytrs.Tract(txt,parse_qq=True,config=cfg); return t
bad=collections.Counter(); ex={}
for i in range(8000):
    n=R.randint(1,5); els=[elem() for _ in range(n)]
    sep=R.choice([', ','; ',';\n',',\n'])
    txt=sep.join(els)
    for cfg in ['', 'suppress_lot_divs','qq_depth.1','qq_depth_min.3']:
        whole=res(txt,cfg); parts=[res(e,cfg) for e in els]
        elots=sum([p.lots for p in parts],[]); eqqs=sum([p.qqs for p in parts],[])
        eacres={}
        for p in parts: eacres.update(p.lot_acres)
        eaw=sum([p.aliquots_whole for p in parts],[])
        why=None
        if whole.lots!=elots: why='lots'
        elif whole.qqs!=eqqs: why='qqs'
        elif whole.lots_qqs!=elots+eqqs: why='lots_qqs'
        elif whole.ilots!=[int(l.split('L')[-1]) for l in elots]: why='ilots'
        elif whole.aliquots_whole!=eaw: why='aw'
        elif whole.lot_acres!=eacres and len(set(sum([list(p.lot_acres) for p in parts],[])))==sum(len(p.lot_acres) for p in parts): why='acres'
        else:
            duplot=len(set(elots))<len(elots); dupqq=len(set(eqqs))<len(eqqs)
            if any(f.startswith('dup_lot<') for f in whole.w_flags)!=duplot: why='duplotflag'
            elif any(f.startswith('dup_qq<') for f in whole.w_flags)!=dupqq: why='dupqqflag'
        if why: bad[why]+=1; ex.setdefault(why,[]).append((txt,cfg,whole.lots,elots,whole.qqs,eqqs,whole.lot_acres,eacres,whole.w_flags))
print(bad)
for k,v in ex.items():
    for x in v[:5]: print(k,x)
