import random, pytrs, collections, sys
R=random.Random(7)
def gen_items(maxn, kmax=5):
    items=[]
    for _ in range(R.randint(1,kmax)):
        k=R.choice(['s','s','a','d'])
        if k=='s': items.append((R.randint(1,maxn),))
        elif k=='a':
            a=R.randint(1,maxn-1); b=R.randint(a+1,min(maxn,a+6)); items.append((a,b))
        else:
            a=R.randint(2,maxn); b=R.randint(max(1,a-6),a-1); items.append((a,b))
    return items
def expand(items):
    out=[]; desc=False
    for it in items:
        if len(it)==1: out.append(it[0])
        else:
            a,b=it
            if a<=b: out.extend(range(a,b+1))
            else: out.extend(range(a,b-1,-1)); desc=True
    return out,desc
def render(items, words, plural_ok=True):
    w=R.choice(words)
    multi = len(items)>1 or len(items[0])>1
    s = w + ('s' if multi and plural_ok and R.random()<.6 and not w.endswith('.') and w!='§' else '')
    s += R.choice([' ',' ']) if w!='§' or R.random()<.5 else ''
    parts=[]
    for i,it in enumerate(items):
        if len(it)==1: p=str(it[0])
        else: p=f"{it[0]}{R.choice([' - ','-',' through ',' thru ',' to '])}{it[1]}"
        if i>0 and R.random()<.25: p = R.choice(words)+' '+p   # repeated keyword
        parts.append(p)
    out=parts[0]
    for i,p in enumerate(parts[1:],1):
        last = i==len(parts)-1
        j = R.choice([', ',', ',' and ',' & ',', and ']) if last else R.choice([', ',', ','; '])
        out+=j+p
    return s+out
bad=collections.Counter(); ex={}
for i in range(6000):
    items=gen_items(36)
    exp,desc=expand(items)
    txt=render(items,['Section','Sec','Sec.','Sect.','§'])
    got=pytrs.find_sec(txt)
    e=[f"{n:02d}" for n in exp]
    full="T154N-R97W "+txt+": NE/4"
    d=pytrs.PLSSDesc(full)
    got2=[t.sec for t in d.tracts]
    descs={t.desc for t in d.tracts}
    ns = 'nonsequential_sections' in d.w_flags
    why=None
    if got!=e: why='find_sec'
    elif got2!=e: why='plss'
    elif descs!={'NE/4'}: why='desc'
    elif ns!=desc: why='nsflag'
    if why: bad[why]+=1; ex.setdefault(why,[]).append((txt,e,got,got2,d.w_flags))
print('sec',bad)
for k,v in ex.items():
    for x in v[:5]: print(k,x)
bad=collections.Counter(); ex={}
for i in range(6000):
    items=gen_items(99)
    exp,desc=expand(items)
    txt=render(items,['Lot','L','Lt','Lot','L.'])
    t=pytrs.Tract(txt,parse_qq=True)
    e=[f"L{n}" for n in exp]
    why=None
    if t.lots!=e: why='lots'
    elif t.ilots!=exp: why='ilots'
    elif ('nonsequential_lots' in t.w_flags)!=desc: why='nsflag'
    if why: bad[why]+=1; ex.setdefault(why,[]).append((txt,e,t.lots,t.w_flags,t.qqs))
print('lots',bad)
for k,v in ex.items():
    for x in v[:6]: print(k,x)
