import pytrs, csv, os, tempfile
from pytrs import PLSSDesc, Tract
from pytrs.tractwriter import TractWriter
d=PLSSDesc('T154N-R97W Sec 14: Lots 1(40.1), 2, N/2 of Lot 3, NE/4, "quoted", less and except wellbore\nline two, Sec 15: W/2 T155N-R97W', parse_qq=True, source='S1')
print(d.e_flags,d.w_flags)
tmp=tempfile.mkdtemp()
for att in list(Tract.ATTRIBUTES)+['bogus']:
    for name,fn in (('csv',lambda fp: d.tracts_to_csv([att],fp,'w')),('tw',lambda fp: (lambda w:(w.write(d),w.close()))(TractWriter([att],fp,'w')))):
        fp=os.path.join(tmp,f'{att}_{name}.csv')
        try:
            fn(fp)
            rows=list(csv.reader(open(fp,newline='')))
            print(att,name,'OK',len(rows),rows[1][:1] if len(rows)>1 else None)
        except Exception as e:
            print(att,name,'EXC',type(e).__name__,e)
print(d.tracts_to_dict('bogus','trs'))
print(d.tracts[0].to_list('ilots','lot_acres','w_flag_lines'))
