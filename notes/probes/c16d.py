import pytrs, time, warnings
warnings.simplefilter('ignore')
def tm(txt):
    t=time.process_time(); pytrs.PLSSDesc(txt, parse_qq=True); return round(time.process_time()-t,3)
for n in (100,160,240,400,590):
    print(n, 'semis', tm('T154N-R97W '+';'*n), 'dashes', tm('T154N-R97W '+'-'*n+' NE/4'), 'normal', tm(('T154N-R97W Sec 14: NE/4, Sec 15: Lots 1 - 3, W/2; '*20)[:n+11]))
import pytrs
from pytrs import TractList, Tract
tl=TractList([Tract('x',trs='1n1w05'),Tract('y',trs='1n1w02')])
try:
    tl.custom_sort('x.ns'); print('x.ns accepted', [t.trs for t in tl])
except Exception as e: print(type(e).__name__, e)
