import pytrs, traceback
cases = [
 ("T154N-R97W Section NE/4", {}),
 ("T154N-R97W Sec 14 NE/4", dict(config='sec_colon_required')),
 ("T154N-R97W Sec 14 NE/4", dict(config='sec_colon_cautious')),
 ("", {}),
 ("Sec", {}),
 ("Section of T154N-R97W", {}),
 ("NE/4 of Section, T154N-R97W", {}),
 ("T154N-R97W Sec 14: NE/4", dict(layout='desc_STR')),
 ("T154N-R97W Sec 14: NE/4", dict(layout='S_desc_TR')),
 ("T154N-R97W Sec 14: NE/4", dict(layout='TR_desc_S')),
 ("T154N-R97W Sec 14: NE/4", dict(layout='copy_all')),
 ("T154N-R97W Sec 14: NE/4", dict(config='copy_all')),
 ("T154N-R97W Sec 14: NE/4", dict(config='segment')),
 ("foo", dict(config='segment')),
 ("T154N-R97W", {}),
 ("Sec 14: NE/4", {}),
 ("T154N-R97W § NE/4", dict(config='segment,sec_within')),
]
for txt, kw in cases:
    try:
        d = pytrs.PLSSDesc(txt, parse_qq=True, **kw)
        print(repr(txt), kw, '->', d.current_layout, [(t.trs, t.desc) for t in d.tracts], d.e_flags, d.w_flags)
    except Exception as e:
        print(repr(txt), kw, 'EXC', type(e).__name__, e)
        traceback.print_exc(limit=-3)
