import pytrs, time, sys
def tm(txt):
    t=time.process_time()
    try: pytrs.PLSSDesc(txt, parse_qq=True)
    except Exception as e: print('   exc', type(e).__name__)
    return round(time.process_time()-t,3)
for n in (20,40,80,160,300):
    print('spaces', n, tm('T154N-R97W '+' '*n+'Sec 14: NE/4'), 'tabs', tm('T154N-R97W'+'\t'*n+'Sec 14: NE/4'), 'nl', tm('T154N-R97W'+'\n'*n+'Sec 14: NE/4'), 'dots between TR', tm('T154N-R97W '+'.'*n+' T154N-R97W'), 'commas', tm('T154N-R97W Sec 14: NE/4'+','*n+' T154N-R97W')); sys.stdout.flush()
