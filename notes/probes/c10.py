import pytrs
def show(txt, **kw):
    d = pytrs.PLSSDesc(txt, **kw)
    print(repr(txt), kw)
    print('  tracts', [(t.trs, t.desc) for t in d.tracts], d.current_layout)
    print('  w', d.w_flags); print('  wl', d.w_flag_lines); print('  e', d.e_flags); print('  el', d.e_flag_lines)
    return d
show("T154N-R97W Sec 14 NE/4", config='sec_colon_cautious')
show("That part of Section 4 of T154N-R97W, T154N-R97W Sec 14: NE/4")
show("T154N-R97W Sec 14: NE/4, that part of Section 4 of T155N-R97W lying north")
show("T154N-R97W Sec 14: NE/4 less and except the wellbore, insofar as it covers surface to the base of the Bakken formation, including all")
show("T154-R97 Sec 14: NE/4")
show("T154N-R97W Sec 14 - 12: NE/4")
show("T154N-R97W Sec 14: NE/4 of Sec 3")
