import random, pytrs, collections, signal, sys, warnings
warnings.simplefilter('ignore')
R=random.Random(int(sys.argv[1]) if len(sys.argv)>1 else 53)
ALPHA=list("TRSNEWtrsnew0123456789 .,:;-–—/\n\t()[]§½¼&'\"°|_~") + ['Sec','Section','Township','Range','Lot','Lots','and','thru','of','the','ALL','P.M.',' ','‏','１５４','é','Ⅳ','٣','\x00','\r','\x0b','﻿','𝟙','North','West','Half','Quarter','NE/4','N/2','T154N-R97W','Sec 14:','Twp.','Rge.']
CFGS=['','segment','sec_within','sec_colon_required','sec_colon_cautious','ocr_scrub','clean_qq','segment,sec_within','s,e','qq_depth.1','TRS_desc','desc_STR','copy_all','S_desc_TR','TR_desc_S','segment,sec_colon_cautious','ocr_scrub,segment,sec_within,clean_qq,break_halves,qq_depth_min.3']
class TO(Exception): pass
def h(*a): raise TO()
signal.signal(signal.SIGALRM,h)
bad=collections.Counter(); ex={}
for i in range(15000):
    txt=''.join(R.choice(ALPHA)+R.choice(['',' ','']) for _ in range(R.randint(0,40)))
    cfg=R.choice(CFGS)
    signal.alarm(4)
    try:
        d=pytrs.PLSSDesc(txt,config=cfg,parse_qq=True); assert len(d.tracts)>=1
        t=pytrs.Tract(txt,config=cfg if 'desc' not in cfg and 'copy' not in cfg else '',parse_qq=True)
        signal.alarm(0)
    except TO:
        bad['slow']+=1; ex.setdefault('slow',[]).append((txt,cfg))
    except Exception as e:
        signal.alarm(0); k=type(e).__name__+':'+str(e)[:60]; bad[k]+=1; ex.setdefault(k,[]).append((txt,cfg))
print(bad)
for k,v in ex.items(): print(k, v[:2])
