import random, pytrs, sys, collections, re
sys.argv=[sys.argv[0],'3']
exec(open('c01.py').read().split("fails=collections.Counter()")[0])
MARK='ZQXJV'
lost=collections.Counter(); ex={}
tot=0
for i in range(300):
    lay = R.choice(['TRS_desc','TR_desc_S','desc_STR','S_desc_TR'])
    txt, exp = gen(lay)
    toks = [m.start() for m in re.finditer(r'\s+', txt)] + [0, len(txt)]
    for cfg in ['', 'segment', 'sec_within', 'sec_colon_required','sec_colon_cautious','segment,sec_within']:
        for pos in R.sample(toks, min(6,len(toks))):
            t2 = txt[:pos] + ' ' + MARK + ' ' + txt[pos:]
            tot+=1
            try:
                d = pytrs.PLSSDesc(t2, config=cfg)
            except Exception as e:
                lost[(cfg,'EXC '+type(e).__name__)]+=1; ex.setdefault((cfg,'EXC'),[]).append(t2); continue
            inout = any(MARK in t.desc for t in d.tracts) or any(MARK in f for f in d.e_flags if isinstance(f,str) and f.startswith('unused_desc'))
            if not inout:
                lost[(cfg,lay)]+=1; ex.setdefault((cfg,lay),[]).append((t2,[(t.trs,t.desc) for t in d.tracts], d.e_flags, d.w_flags))
print(tot, lost)
for k,v in ex.items():
    for e in v[:2]:
        print('---',k); print(e)
