import random, pytrs, sys, collections
R = random.Random(int(sys.argv[1]) if len(sys.argv)>1 else 1)
def twprge_spell(t,ns,r,ew):
    NS = {'n':'North','s':'South'}[ns]; EW={'e':'East','w':'West'}[ew]
    forms = [
      f"T{t}{ns.upper()}-R{r}{ew.upper()}",
      f"Township {t} {NS}, Range {r} {EW}",
      f"Twp. {t} {ns.upper()}., Rge. {r} {ew.upper()}.",
      f"T-{t}-{ns.upper()}-R-{r}-{ew.upper()}",
      f"t{t}{ns}r{r}{ew}",
    ]
    if r != 2: forms.append(f"{t}{ns.upper()}-{r}{ew.upper()}")
    return R.choice(forms)
SECW = ['Section','Sec','Sec.','Sect.','§']
def sec_group():
    kind = R.choice(['single','single','and','thru'])
    if kind=='single':
        n=R.randint(1,99); return [n], None
    if kind=='and':
        a,b = R.sample(range(1,100),2); return [a,b], 'and'
    a=R.randint(1,95); b=R.randint(a+1,min(99,a+4)); return list(range(a,b+1)), 'thru'
def sec_spell(nums, kind):
    w = R.choice(SECW)
    sp = '' if w=='§' and R.random()<.5 else ' '
    if kind is None: return f"{w}{sp}{nums[0]}"
    pl = 's' if w in('Section','Sec') and R.random()<.6 else ''
    if w=='Sec.' : pl=''
    if kind=='and': return f"{w}{pl}{sp}{nums[0]} {R.choice(['and','&'])} {nums[1]}"
    return f"{w}{pl}{sp}{nums[0]}{R.choice([' - ','-',' through ',' thru '])}{nums[-1]}"
BLOCKS = ['NE/4','W/2','S/2N/2','Lots 1 - 3, S/2NE/4','ALL','N½SW¼','Lot 4, SE/4NW/4','Northeast Quarter','That part lying north of the river','A strip of land 100 feet wide','E/2W/2, Lots 1, 2','Lot 1(38.12), Lot 2(40.00)','SW/4SE/4, less and except the wellbore']
def gen(layout):
    k=R.randint(1,3); groups=[]
    used=set()
    for _ in range(k):
        while True:
            tr=(R.choice([R.randint(1,9),R.randint(10,99),R.randint(100,999)]), R.choice('ns'), R.choice([R.randint(1,9),R.randint(10,99),R.randint(100,999)]), R.choice('ew'))
            if tr not in used: used.add(tr); break
        m=R.randint(1,3); secs=[]
        for _ in range(m):
            nums,kind=sec_group(); secs.append((nums,kind,R.choice(BLOCKS)))
        groups.append((tr,secs))
    # render
    sep = R.choice([', ','; ','\n'])
    parts=[]; expected=[]
    for tr,secs in groups:
        t,ns,r,ew = tr; trtxt=twprge_spell(*tr); short=f"{t}{ns}{r}{ew}"
        for nums,kind,blk in secs:
            for n in nums: expected.append((f"{short}{n:02d}", blk))
        if layout=='TRS_desc':
            s = trtxt + R.choice([' ',', ','\n',': '])
            s += sep.join(f"{sec_spell(n,k)}: {b}" for n,k,b in secs)
        elif layout=='TR_desc_S':
            s = trtxt + R.choice(['\n',': ',' '])
            s += sep.join(f"{b} of {sec_spell(n,k)}" for n,k,b in secs)
        elif layout=='desc_STR':
            s = sep.join(f"{b} of {sec_spell(n,k)}" for n,k,b in secs) + ', '+trtxt
        else:
            conn = R.choice([', ',' of '])
            if secs[-1][2]=='ALL': conn=', '
            s = sep.join(f"{sec_spell(n,k)}: {b}" for n,k,b in secs) + conn+trtxt
        parts.append(s)
    return sep.join(parts), expected
fails=collections.Counter(); N=6000; ex={}
for i in range(N):
    lay = R.choice(['TRS_desc','TR_desc_S','desc_STR','S_desc_TR'])
    txt, exp = gen(lay)
    try:
        d=pytrs.PLSSDesc(txt)
        got=[(t.trs,t.desc) for t in d.tracts]
        ok = got==exp and not d.e_flags and d.current_layout==lay
        if ok:
            p = d.pretty_desc(); d2=pytrs.PLSSDesc(p); got2=[(t.trs,t.desc) for t in d2.tracts]
            if got2!=exp: ok=False; lay+='/pretty'
    except Exception as e:
        ok=False; got=repr(e)
    if not ok:
        fails[lay]+=1; ex.setdefault(lay,[]).append((txt,exp,got,d.current_layout if not isinstance(got,str) else None, d.e_flags if not isinstance(got,str) else None))
print(fails)
for k,v in ex.items():
    for txt,exp,got,cl,ef in v[:4]:
        print('----',k,cl,ef); print(repr(txt)); print(' exp',exp); print(' got',got)
