import pytrs, copy
from pytrs import PLSSDesc, Tract
t = Tract('Lots 1, 1, NE/4, NE/4', parse_qq=True)
print(t.w_flags, t.w_flag_lines)
t.parse(); print(t.w_flags)
t.parse(); print(t.w_flags)
t2 = Tract('Lots 1, 1, NE/4, NE/4'); r=t2.parse(commit=False); print('nc', r, t2.lots, t2.qqs, t2.w_flags, t2.parse_complete, t2.pp_desc)
d = PLSSDesc("T154N-R97W Sec 14: Lots 1, 1, NE/4 less and except wellbore", parse_qq=True)
print(d.w_flags, [t.w_flags for t in d.tracts])
d.parse_tracts(); print([t.w_flags for t in d.tracts])
d.parse(); print(d.w_flags, [t.w_flags for t in d.tracts])
d.parse(); print(d.w_flags, [t.w_flags for t in d.tracts], len(d.tracts))
before = (list(d.w_flags), d.pp_desc, d.current_layout, len(d.tracts), [id(t) for t in d.tracts])
r = d.parse(commit=False, layout='copy_all', default_ns='s', segment=True)
after = (list(d.w_flags), d.pp_desc, d.current_layout, len(d.tracts), [id(t) for t in d.tracts])
print(before==after, [(t.trs,t.desc) for t in r])
# lot acres dup
t = Tract('Lot 1(38.00), Lot 1(39.00)', parse_qq=True); print(t.lot_acres, t.w_flags)
t.parse(); print(t.lot_acres, t.w_flags)
