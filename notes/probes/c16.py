import pytrs, time, sys
def tm(txt, **kw):
    t=time.perf_counter(); 
    try: pytrs.PLSSDesc(txt, parse_qq=True, **kw)
    except Exception as e: print('   exc', type(e).__name__)
    return time.perf_counter()-t
for k in range(2,8):
    txt = "\n".join(["T154N-R97W Sec 14: NE/4"]*k)
    print('rep twprge lines', k, len(txt), round(tm(txt),3)); sys.stdout.flush()
for n in (10,14,16,18,20):
    txt = "Sec 14" + ". "*n
    print('dots', n, len(txt), round(tm(txt),3)); sys.stdout.flush()
