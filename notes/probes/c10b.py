import random, pytrs, sys, collections, re
sys.argv=[sys.argv[0],'41']
exec(open('c01b.py').read().split("fails=collections.Counter()")[0])
BLOCKS[:] = ['NE/4','W/2','S/2N/2','Lots 1 - 3, S/2NE/4','N½SW¼','Lot 4, SE/4NW/4','That part lying north of the river','A strip of land 100 feet wide']
TRIG={'well':[('the Johnston wellbore','wellbore'),('the Smith #1 well','well')],
 'depth':[('from the surface to the base of the Bakken','surface'),('all depths below 5000 feet','depths'),('the Three Forks formation','formation')],
 'including':[('including all accretions','including')],
 'less_except':[('less and except the railroad','less and except'),('except the east ten feet','except'),('limited to the interval','limit')],
 'insofar':[('insofar as it lies there','insofar'),('only in so far as covered','in so far')]}
bad=collections.Counter(); ex={}
N=0
for i in range(1500):
    lay = R.choice(['TRS_desc','TR_desc_S','desc_STR','S_desc_TR'])
    txt, exp = gen(lay)
    kinds=R.sample(list(TRIG), R.randint(1,3))
    ins=[]
    t2=txt
    toks=[m.start() for m in re.finditer(r'[ \n]', txt)]+[0,len(txt)]
    poss=sorted(R.sample(toks,len(kinds)),reverse=True)
    for k,pos in zip(kinds,poss):
        phrase,key=R.choice(TRIG[k])
        t2=t2[:pos]+' '+phrase+' '+t2[pos:]
        ins.append((k,key))
    for cfg in ['','segment','sec_within','segment,sec_within','sec_colon_cautious','copy_all']:
        N+=1
        try: d=pytrs.PLSSDesc(t2,config=cfg)
        except Exception as e: bad['exc']+=1; continue
        for k,key in ins:
            ok = k in d.w_flags and any(f==k and key.lower() in c.lower() for f,c in d.w_flag_lines)
            if not ok:
                why=('noflag' if k not in d.w_flags else 'nocontext')+'-'+cfg
                bad[why]+=1; ex.setdefault(why,[]).append((t2,k,key,d.w_flags,[c for f,c in d.w_flag_lines if f==k], d.pp_desc))
print(N,bad)
for k,v in ex.items():
    for x in v[:2]: print('--',k); print(x)
