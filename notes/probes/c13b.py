import pytrs, itertools, collections
from pytrs import PLSSDesc, Tract, Config
from pytrs.parser.plssdesc import plss_parse as pp
from pytrs.parser.tract import tract_parse as tp, tract as tmod
LOG=[]
o1=pp.PLSSParser.__init__
def w1(self,*a,**k):
    import inspect
    ba=inspect.signature(o1).bind(self,*a,**k); ba.apply_defaults()
    d=dict(ba.arguments); d.pop('self'); d.pop('text',None); d.pop('handed_down_config',None); d.pop('source',None)
    LOG.append(('PLSSParser',d)); return o1(self,*a,**k)
pp.PLSSParser.__init__=w1
o2=tp.TractParser.__init__
def w2(self,*a,**k):
    import inspect
    ba=inspect.signature(o2).bind(self,*a,**k); ba.apply_defaults()
    d=dict(ba.arguments); d.pop('self'); d.pop('text'); d.pop('parent',None)
    LOG.append(('TractParser',d)); return o2(self,*a,**k)
tp.TractParser.__init__=w2; tmod.TractParser=tp.TractParser
import pytrs.parser.plssdesc.plssdesc as pd
TXT="T154-R97 Sec 14 NE, N/2 of Lot 1, Sec 15: W/2"
SET={'default_ns':['n','s'],'default_ew':['e','w'],'layout':['TRS_desc','desc_STR','copy_all','S_desc_TR','TR_desc_S'],'parse_qq':[True,False],'clean_qq':[True,False],'sec_colon_required':[True,False],'sec_colon_cautious':[True,False],'suppress_lot_divs':[True,False],'ocr_scrub':[True,False],'segment':[True,False],'qq_depth':[1,3],'qq_depth_min':[1,3],'qq_depth_max':[3,4],'break_halves':[True,False],'sec_within':[True,False]}
import inspect
PKW=set(inspect.signature(PLSSDesc.parse).parameters)
def eff(log):
    return [(n, tuple(sorted((k,str(v)) for k,v in d.items()))) for n,d in log]
def res(tracts): return [(t.trs,t.desc,t.lots,t.qqs) for t in tracts]
bad=collections.Counter(); det={}
for s,vals in SET.items():
    for v in vals:
        cfg=Config.from_dict({s:v,'parse_qq':True} if s!='parse_qq' else {s:v}).decompile_to_text()
        LOG.clear(); a=PLSSDesc(TXT,config=cfg); ea=eff(LOG); ra=res(a.tracts)
        LOG.clear(); b=PLSSDesc(TXT,wait_to_parse=True); b.config=cfg; b.parse(); eb=eff(LOG); rb=res(b.tracts)
        if (ea,ra)!=(eb,rb): bad[('assign',s)]+=1; det[('assign',s,v)]=(ea,eb)
        if s in PKW:
            LOG.clear(); c=PLSSDesc(TXT,config='parse_qq' if s!='parse_qq' else None,wait_to_parse=True); r=c.parse(commit=False,**{s:v}); ec=eff(LOG); rc=res(r)
            if (ea,ra)!=(ec,rc): bad[('kw',s)]+=1; det[('kw',s,v)]=(ea,ec,ra,rc)
            # conflict: config says other value, kw says v
            other=[x for x in vals if x!=v][0]
            cfg2=Config.from_dict({s:other,'parse_qq':True} if s!='parse_qq' else {s:other}).decompile_to_text()
            LOG.clear(); c=PLSSDesc(TXT,config=cfg2,wait_to_parse=True); r=c.parse(commit=False,**{s:v}); ec=eff(LOG); rc=res(r)
            if (ea,ra)!=(ec,rc): bad[('kw-over-cfg',s)]+=1; det[('kw-over-cfg',s,v)]=(ra,rc)
print(bad)
for k,v in list(det.items())[:0]: print(k,v)
# Tract
TT="N/2 of Lot 1, NE, N/2NE/4NE/4"
TKW=set(inspect.signature(Tract.parse).parameters)
bad=collections.Counter()
for s,vals in SET.items():
    if s not in Config._TRACT_ATTRIBUTES: continue
    for v in vals:
        cfg=Config.from_dict({s:v}).decompile_to_text()
        LOG.clear(); a=Tract(TT,config=cfg,parse_qq=True); ea=eff(LOG); ra=(a.lots,a.qqs)
        LOG.clear(); b=Tract(TT); b.config=cfg; b.parse(); eb=eff(LOG); rb=(b.lots,b.qqs)
        if (ea,ra)!=(eb,rb): bad[('assign',s)]+=1
        if s in TKW:
            LOG.clear(); c=Tract(TT); c.parse(**{s:v}); ec=eff(LOG); rc=(c.lots,c.qqs)
            if (ea,ra)!=(ec,rc): bad[('kw',s,v)]+=1; print('T kw',s,v,ea,ec)
            other=[x for x in vals if x!=v][0]
            LOG.clear(); c=Tract(TT,config=Config.from_dict({s:other}).decompile_to_text()); c.parse(**{s:v}); ec=eff(LOG); rc=(c.lots,c.qqs)
            if (ea,ra)!=(ec,rc): bad[('kw-over-cfg',s,v)]+=1; print('T kwcfg',s,v,ea,ec)
print('tract',bad)
