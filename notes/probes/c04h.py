import sys, random, collections, re
import pytrs
from pytrs.parser.plssdesc import plss_parse as pp
EV=[]
orig_pm=pp.ChunkParser._parse_meaningful
orig_stage=pp.ChunkParser._stage_new_tract
orig_copy=pp.ChunkParser._parse_copyall
def pm(self, txt, layout):
    EV.append(('walk', id(self), txt, layout, dict(self.markers_dict)))
    n0=len(self.unused_components)
    r=orig_pm(self, txt, layout)
    EV.append(('walk_end', id(self), list(self.unused_components[n0:]), [dict(c) for c in self.tract_components]))
    return r
def stage(self, desc, sec, twprge):
    EV.append(('stage', id(self), desc, list(sec), twprge))
    return orig_stage(self, desc, sec, twprge)
pp.ChunkParser._parse_meaningful=pm; pp.ChunkParser._stage_new_tract=stage
STRIP=',;:-–—\t\n .'
CULL={'the','all','of','in','and'}
def residue_ok(block, desc):
    # desc must be a contiguous substring of block; residue only separators/cull words
    i=block.find(desc)
    if i<0: return False
    res=(block[:i]+' '+block[i+len(desc):])
    words=re.findall(r'\w+',res.lower())
    return all(w in CULL for w in words)
def check():
    bad=[]
    i=0
    while i<len(EV):
        if EV[i][0]=='walk':
            _,cid,txt,layout,markers=EV[i]
            j=i+1; staged=[]
            while EV[j][0]!='walk_end' or EV[j][1]!=cid:
                if EV[j][0]=='stage' and EV[j][1]==cid: staged.append(EV[j][2])
                j+=1
            unused=[u for _,u in EV[j][2]]
            pos=sorted(markers)
            blocks=[]
            for a,b in zip(pos,pos[1:]):
                if markers[a] in ('TEXT_START','TWPRGE_END','SEC_END'): blocks.append(txt[a:b])
            # every block accounted once
            st=list(staged); un=list(unused)
            for blk in blocks:
                if blk in un: un.remove(blk); continue
                k=next((k for k,d in enumerate(st) if residue_ok(blk,d)),None)
                if k is None: bad.append(('lost',txt,blk,staged,unused)); continue
                st.pop(k)
            un=[u for u in un if u.strip()]
            if st or un: bad.append(('extra',txt,st,un))
            i=j
        i+=1
    return bad
exec(open('c01.py').read().split("fails=collections.Counter()")[0])
tot=0; allbad=[]
for n in range(1500):
    lay=R.choice(['TRS_desc','TR_desc_S','desc_STR','S_desc_TR']); txt,exp=gen(lay)
    for cfg in ['','segment','sec_within']:
        EV.clear()
        try: pytrs.PLSSDesc(txt,config=cfg)
        except Exception as e: continue
        tot+=sum(1 for e in EV if e[0]=='walk')
        allbad+=check()
print('walks',tot,'bad',len(allbad))
for b in allbad[:5]: print(b)
