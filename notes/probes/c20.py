import random, pytrs, sys, collections, re
sys.argv=[sys.argv[0],'29']
src=open('c01.py').read().split("fails=collections.Counter()")[0]
exec(src)
BLOCKS[:] = [b for b in BLOCKS if b!='ALL']
bad=collections.Counter(); ex={}
def tr(d): return [(t.trs,t.desc) for t in d.tracts]
for i in range(1500):
    lay = R.choice(['TRS_desc','TR_desc_S','desc_STR','S_desc_TR'])
    txt, exp = gen(lay)
    try:
        a=pytrs.PLSSDesc(txt); b=pytrs.PLSSDesc(txt,config='segment')
    except Exception as e:
        bad['exc']+=1; continue
    if tr(a)!=exp: continue   # only where C01 holds
    if tr(b)!=tr(a):
        bad['segment-'+lay]+=1; ex.setdefault('segment-'+lay,[]).append((txt,tr(a),tr(b),b.e_flags))
    if lay in ('TRS_desc','S_desc_TR'):
        # all colons present
        for cfg in ('sec_colon_required','sec_colon_cautious'):
            c=pytrs.PLSSDesc(txt,config=cfg)
            if tr(c)!=tr(a) or c.flags!=a.flags:
                bad[cfg+'-allcolon-'+lay]+=1; ex.setdefault(cfg+'-allcolon',[]).append((txt,tr(a),tr(c),a.flags,c.flags))
        # remove all colons after sections
        nocol=re.sub(r'(\d):', r'\1', txt)
        a2=pytrs.PLSSDesc(nocol)
        try:
            c=pytrs.PLSSDesc(nocol,config='sec_colon_cautious')
            if tr(c)!=tr(a2): bad['cautious-nocolon-'+lay]+=1; ex.setdefault('cautious-nocolon',[]).append((nocol,tr(a2),tr(c)))
            elif not any(isinstance(f,str) and f.startswith('pulled_sec_without_colon') for f in c.w_flags): bad['cautious-noflag']+=1; ex.setdefault('cautious-noflag',[]).append((nocol,c.w_flags))
        except Exception as e: bad['cautious-exc']+=1
        try:
            r=pytrs.PLSSDesc(nocol,config='sec_colon_required')
            if len(r.tracts)!=1 or r.tracts[0].desc!=r.pp_desc: bad['required-nocolon-'+lay]+=1; ex.setdefault('required-nocolon',[]).append((nocol,tr(r),r.pp_desc))
        except Exception as e: bad['required-exc-'+type(e).__name__]+=1
print(bad)
for k,v in ex.items():
    for x in v[:3]: print('--',k); print(x)
