import random, pytrs, collections, warnings, signal, string
warnings.simplefilter('ignore')
R=random.Random(37)
VOC=['Lot','Lots','L','Lot 1','Lots 1 - 3','1','12','(40.00)','[39.5]','(',')','N/2','NE/4','N½','NE¼','½','¼','of','the',' ','  ','\n',',',';','-','thru','and','&','ALL','all of','North Half','Northeast Quarter','N2','NE','E2NE','N 1/2','1/4','/','4','2','W','S','Lt.','L.','°',"'",'N 2° 37\' W','less and except','Sec 14','T154N-R97W','x','\t','…','é','Ⅳ','٣','L3','of L','N2 of L1','Lot 0','Lot 999','Lot 1000']
CFG=['','clean_qq','suppress_lot_divs','qq_depth.1','qq_depth.3','qq_depth_min.1,qq_depth_max.2','break_halves','clean_qq,break_halves,qq_depth_min.3','qq_depth_min.4','ocr_scrub,n,e']
bad=collections.Counter(); ex={}
class TO(Exception): pass
def h(*a): raise TO()
signal.signal(signal.SIGALRM,h)
for i in range(30000):
    txt=R.choice(['',' ']).join(R.choice(VOC) for _ in range(R.randint(0,10)))
    cfg=R.choice(CFG)
    signal.alarm(5)
    try:
        t=pytrs.Tract(txt,config=cfg,parse_qq=True); t.ilots; t.lots_qqs; t.parse(commit=False); t.preprocess(); str(t); repr(t)
        signal.alarm(0)
    except TO:
        bad['slow']+=1; ex.setdefault('slow',[]).append((txt,cfg))
    except Exception as e:
        signal.alarm(0); k=type(e).__name__+':'+str(e)[:50]; bad[k]+=1; ex.setdefault(k,[]).append((txt,cfg))
print(bad)
for k,v in ex.items(): print(k, v[:3])
