import random, pytrs, collections
from pytrs import Tract, TRS, TractList, TRSList
R=random.Random(43)
POOL=['154n97w14','154n97w15','155n97w14','154n96w01','XXXzXXXzXX','___z___z__','154nXXXz14','154n97wXX','___z97w01','154n97w__']
DESCS=['NE/4','Northeast Quarter','Lots 1 - 3, S/2NE/4','Lot 3, S/2NE/4, Lots 1, 2','W/2','foo']
def mk():
    cls=R.choice([TractList,TRSList])
    n=R.randint(0,9); els=[]
    for _ in range(n):
        if els and R.random()<.25: els.append(R.choice(els)); continue
        s=R.choice(POOL)
        els.append(Tract(R.choice(DESCS),trs=s,parse_qq=R.random()<.7) if cls is TractList else TRS(s))
    return cls, els
def ids(x): return [id(e) for e in x]
def is_err(trs,twp,rge,sec,undef):
    t=TRS(trs)
    def comp(num,und): return (num is None and not und) or (undef and und)
    return (twp and comp(t.twp_num,t.twp_undef)) or (rge and comp(t.rge_num,t.rge_undef)) or (sec and comp(t.sec_num,t.sec_undef))
def dupmodel(cls, els, method):
    if method=='default': method='instance' if cls is TractList else 'trs'
    seen_inst=[]; seen_keys=set(); out=[]
    for i,e in enumerate(els):
        d=False
        if cls is TractList:
            if any(e is s for s in seen_inst): d=True
        else:
            if any(e==s for s in seen_inst): d=True   # TRS equality by string
        seen_inst.append(e)
        key=None
        if method=='trs': key=('k',e.trs)
        elif method=='desc': key=('k',e.trs, e.pp_desc.strip()) if cls is TractList else ('k',e.trs)
        elif method=='lots_qqs':
            if cls is TractList and e.parse_complete: key=('k',e.trs,tuple(sorted(set(e.lots_qqs))))
        if key is not None:
            if key in seen_keys: d=True
            seen_keys.add(key)
        if d: out.append(i)
    return out
bad=collections.Counter(); ex={}
for it in range(20000):
    cls,els=mk(); lst=cls(els)
    if ids(lst)!=ids(els): bad['ctor']+=1; continue
    op=R.choice(['filter','errors','dups','group','group2'])
    drop=R.random()<.5
    if op=='filter':
        sec=R.choice(['14','01','XX']); sel=[i for i,e in enumerate(els) if e.sec==sec]
        got=lst.filter(lambda t:t.sec==sec, drop=drop)
    elif op=='errors':
        a=[R.random()<.6 for _ in range(4)]
        sel=[i for i,e in enumerate(els) if is_err(e.trs,*a)]
        got=lst.filter_errors(*a, drop=drop)
    elif op=='dups':
        m=R.choice(['default','instance','trs','desc','lots_qqs'])
        sel=dupmodel(cls,els,m); got=lst.filter_duplicates(m,drop=drop)
    else:
        atts=['twprge'] if op=='group' else R.choice([['twp','rge'],['twprge','sec'],['twp','rge','sec']])
        g=lst.group_by(atts if op=='group2' else atts[0])
        flat=[]; ok=True
        for k,v in g.items():
            kk=k if isinstance(k,tuple) else (k,)
            for e in v:
                if tuple(getattr(e,a) for a in atts)!=kk: ok=False
            flat+=list(v)
        # partition + order preserved within groups
        if sorted(ids(flat))!=sorted(ids(els)) or not ok: bad['group']+=1
        for k,v in g.items():
            kk=k if isinstance(k,tuple) else (k,)
            exp=[e for e in els if tuple(getattr(e,a) for a in atts)==kk]
            if ids(v)!=ids(exp): bad['grouporder']+=1
        if sorted(ids(cls.unpack_group(g)))!=sorted(ids(els)): bad['unpack']+=1
        continue
    exp_sel=[els[i] for i in sel]; exp_rem=[e for i,e in enumerate(els) if i not in sel] if drop else els
    if ids(got)!=ids(exp_sel) or ids(lst)!=ids(exp_rem) or type(got) is not cls:
        bad[op]+=1; ex.setdefault(op,[]).append((cls.__name__,[e.trs for e in els],sel,[e.trs for e in got],drop))
print(bad)
for k,v in ex.items(): print(k,v[:3])
