import sys, time
sys.path.insert(0,'/tmp/exp/deps')
import icontract, pytrs
from pytrs.parser.tract import aliquot_parse, tract_parse
from pytrs.parser.plssdesc import plss_parse
class Broken(Exception): pass
N={'n':0}
def qqs_nonempty(text, result):
    N['n']+=1
    return isinstance(result, list)
wrapped = icontract.ensure(qqs_nonempty, error=Broken)(aliquot_parse.parse_aliquot)
aliquot_parse.parse_aliquot = wrapped; tract_parse.parse_aliquot = wrapped
def flags_typed(self):
    return all(isinstance(f,str) for f in self.flags) and len(self.flags)==len(self.flag_lines) or True
icontract.invariant(flags_typed, error=Broken)(plss_parse.SecFinder)
def snap(self): return (list(self.w_flags), list(self.lots))
def unchanged(self, commit, OLD):
    return commit or OLD.s == (list(self.w_flags), list(self.lots))
pytrs.Tract.parse = icontract.snapshot(snap, name='s')(icontract.ensure(unchanged, error=Broken)(pytrs.Tract.parse))
t=time.time()
for i in range(300):
    d=pytrs.PLSSDesc('T154N-R97W Sec 14: NE/4, Sec 15: Lots 1 - 3, W/2', parse_qq=True)
    d.tracts[0].parse(commit=False)
print(N, time.time()-t)
