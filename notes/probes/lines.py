import sys, time, pytrs, random
TOOL=sys.monitoring.PROFILER_ID
sys.monitoring.use_tool_id(TOOL,'lc')
cnt=[0]
def line_cb(code, line):
    if 'pytrs' in code.co_filename: cnt[0]+=1
    else: return sys.monitoring.DISABLE
sys.monitoring.register_callback(TOOL, sys.monitoring.events.LINE, line_cb)
def measure(txt,**kw):
    cnt[0]=0
    sys.monitoring.set_events(TOOL, sys.monitoring.events.LINE)
    t=time.process_time()
    pytrs.PLSSDesc(txt,parse_qq=True,**kw)
    dt=time.process_time()-t
    sys.monitoring.set_events(TOOL, 0)
    return cnt[0], round(dt,4)
base="T154N-R97W Sec 14: NE/4, Sec 15: Lots 1 - 3, W/2; Sec 16: N/2 of Lot 4 (39.1), less and except the wellbore\n"
for n in (1,2,3):
    t=(base*n)[:250*n]
    print(len(t), measure(t))
print('secs', measure("T154N-R97W "+", ".join(f"Sec {i}: NE/4" for i in range(1,19))))
print('lots', measure("T154N-R97W Sec 1: Lots "+", ".join(str(i) for i in range(1,60))))
print('aliq', measure("T154N-R97W Sec 1: "+", ".join("N/2NE/4SW/4" for i in range(20))))
print('depth4', measure("T154N-R97W Sec 1: ALL", config='qq_depth.4'))
print('rep tr', measure("\n".join(["T154N-R97W Sec 14: NE/4"]*10)))
print('spaces', measure("T154N-R97W"+" "*12+"Sec 14: NE/4"))
