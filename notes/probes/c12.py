import pytrs
from pytrs import TRS, trs_to_dict
for s in ['154n97w14','1154n97w14','154n97w100','154n97w1','154N97W14',' 154n97w14','154n97w14 ','x154n97w14','154n97w','154n97','asdf','','___z___z__','XXXzXXXzXX','154n___z14','XXXz97w__','154n97wXX','154n97w__','154n97w014','0n0w00','000n000w00','1234n97w14','154n97w14x','154n 97w14', '154n97w1 4', '154nn97w14','154n97ww14','T154N-R97W14', '___Z___Z__', 'xxxzxxxzxx', '154n97wxx','154s97e14\n']:
    t = TRS(s)
    d = trs_to_dict(s)
    print(repr(s), '->', t.trs, t.twp, t.rge, t.sec, t.twp_num, t.rge_num, t.sec_num, t.twp_undef, t.rge_undef, t.sec_undef, t.is_error(), d['trs']==t.trs)
print('---construct')
for args in [(154,97,14),( '154n','97w','14'),('154','97',1),(154,97,None),(None,None,None),('154s','97e','01'),(0,0,0),(1000,97,14),(154,97,100),('154x',97,14),(154,97,'1a'),(154,97,-1),(-5,97,14),('XXXz','97w',14),('___z',97,14),(154,97,'XX'),(154,97,'__'),('',97,14),(154.0,97,14),('154N','97W','14'), (' 154n',97,14), ('154n ',97,14),('1 54',97,14),('+154',97,14),('1_5',97,14),('١٥٤',97,14)]:
    try:
        t = TRS.from_twprgesec(*args)
        print(args, '->', t.trs, t.twp_num, t.twp_ns, t.rge_num, t.rge_ew, t.sec_num)
    except Exception as e:
        print(args, 'EXC', type(e).__name__, e)
