#!/bin/sh
# Offline install of the runtime-contract library (icontract + deps) and
# jsonschema beside the repository's interpreter, into /verif/.deps
# (git-ignored). Re-run by ./check when .deps is missing.
set -e
HERE="$(cd "$(dirname "$0")" && pwd)"
DEPS="$HERE/.deps"
if [ -f "$DEPS/.ok" ]; then
  exit 0
fi
rm -rf "$DEPS"
mkdir -p "$DEPS"
PIP_NO_INDEX=1 /venv/bin/python -m pip install --quiet --no-index \
  --find-links /opt/veriftools/wheels --target "$DEPS" \
  icontract deal jsonschema >/dev/null 2>"$DEPS/pip.err" || {
    cat "$DEPS/pip.err" >&2
    exit 1
  }
/venv/bin/python - <<PY
import sys
sys.path.insert(0, "$DEPS")
import icontract, jsonschema
print("deps ok: icontract", icontract.__version__)
PY
touch "$DEPS/.ok"
